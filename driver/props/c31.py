"""C31 — file ids are unique and shared state is thread-safe.

Per run: (1) record the atomic operations FileId::new / FileId::reset perform on NEXT (through the hook),
infer the atomic-operation program, regenerate coq/theories/Mem/FileIdProgram.v and diff it against the
committed copy; (2) check Props/C31.v (stated about that generated program); (3) tie: forced schedules through
the turnstile vs the model's run of the same schedule, free-running threads, TaggedFileId packing, the
concurrent workload over one shared Valid<Schema>, the shared-state inventory.  If (2) breaks, the model is
searched for a failing schedule, which is replayed on the real code."""
import itertools
import json
import re
from common import *
from props import c31_scan

TAG = 1 << 63
W64 = 1 << 64
PROGRAM_V = COQ / "theories" / "Mem" / "FileIdProgram.v"
TRACE_STARTS_NEW = [3, TAG - 1, TAG, TAG + 5]
TRACE_STARTS_RESET = [77, TAG + 5]


def repo_path():
    return Path(os.environ.get("VERIF_REPO", str(REPO)))


# --------------------------------------------------------------------------- trace -> program (the translator)

def parse_trace(line):
    m = re.match(r"ops=(\S+) ret=(\S+)( panicked)?$", line)
    if not m:
        return None
    ops = []
    if m.group(1) != "-":
        for o in m.group(1).split(";"):
            kind, operand, expected, read, written = o.split(":")
            ops.append({"kind": kind, "operand": int(operand, 16), "expected": int(expected, 16),
                        "read": None if read == "-" else int(read, 16),
                        "written": None if written == "-" else int(written, 16)})
    return {"ops": ops, "ret": None if m.group(2) == "-" else int(m.group(2), 16), "panicked": bool(m.group(3))}


def shape(ops_a, ops_b, reg_a=None, reg_b=None):
    """Instructions common to two executions of the same path; None if they do not have one shape."""
    if len(ops_a) != len(ops_b):
        return None
    ins = []
    for a, b in zip(ops_a, ops_b):
        if a["kind"] != b["kind"]:
            return None
        k = a["kind"]
        if k == "fetch_add":
            if a["operand"] != b["operand"]:
                return None
            ins.append(("fa", a["operand"]))
            reg_a, reg_b = a["read"], b["read"]
        elif k == "load":
            ins.append(("ld", None))
            reg_a, reg_b = a["read"], b["read"]
        elif k == "store":
            if a["operand"] == b["operand"]:
                ins.append(("sc", a["operand"]))
            elif reg_a is not None and (a["operand"] - reg_a) % W64 == (b["operand"] - reg_b) % W64:
                ins.append(("sr", (a["operand"] - reg_a) % W64))
            else:
                return None
        else:
            return None  # swap / compare_exchange / fetch_sub ... : not in the model's instruction set
    return ins, reg_a, reg_b


def infer(traces_new, traces_reset):
    """-> (new_program, reset_program) as lists of (op, arg, cont), or raises ValueError(reason)."""
    tr = [parse_trace(t) for t in traces_new]
    if any(t is None or t["panicked"] for t in tr):
        raise ValueError("FileId::new panicked or produced no trace: " + " | ".join(traces_new))
    a, b, c, d = tr
    ok = shape(a["ops"], b["ops"])
    if not ok or not ok[0]:
        raise ValueError("the untagged path of FileId::new is not one straight-line sequence of load/store/fetch_add")
    ok_ins, ra, rb = ok
    if a["ret"] != ra or b["ret"] != rb:
        raise ValueError("FileId::new does not return the value it last read from the counter")
    k = len(ok_ins)

    def follows(ops, ins, reg=None):
        """do these recorded operations follow the instruction list?  -> (True, last value read) or (False, None)"""
        if len(ops) != len(ins):
            return False, None
        for o, (op, v) in zip(ops, ins):
            kind = {"fa": "fetch_add", "ld": "load", "sc": "store", "sr": "store"}[op]
            if o["kind"] != kind:
                return False, None
            if op == "fa" and o["operand"] != v:
                return False, None
            if op == "sc" and o["operand"] != v:
                return False, None
            if op == "sr" and (reg is None or o["operand"] != (reg + v) % W64):
                return False, None
            if op in ("fa", "ld"):
                reg = o["read"]
        return True, reg

    c1, d1 = follows(c["ops"][:k], ok_ins), follows(d["ops"][:k], ok_ins)
    if not (c1[0] and d1[0]):
        raise ValueError("FileId::new behaves differently on a tagged counter value before its first test")
    if len(c["ops"]) == k and len(d["ops"]) == k:
        if c["ret"] != c1[1] or d["ret"] != d1[1]:
            raise ValueError("FileId::new on a tagged counter value returns something it did not read")
        new = [(o, v, "n") for o, v in ok_ins[:-1]] + [(ok_ins[-1][0], ok_ins[-1][1], "r")]
    else:
        m = len(c["ops"]) - 2 * k
        if m < 1 or len(d["ops"]) != len(c["ops"]):
            raise ValueError("the tagged path of FileId::new is not <attempt> <retry ops> <attempt>")
        retry = shape(c["ops"][k:k + m], d["ops"][k:k + m], c1[1], d1[1])
        c3, d3 = follows(c["ops"][k + m:], ok_ins), follows(d["ops"][k + m:], ok_ins)
        if not retry or not (c3[0] and d3[0]):
            raise ValueError("the tagged path of FileId::new is not <attempt> <retry ops> <attempt>")
        if c["ret"] != c3[1] or d["ret"] != d3[1]:
            raise ValueError("FileId::new does not return the value it last read from the counter")
        new = [(o, v, "n") for o, v in ok_ins[:-1]] + [(ok_ins[-1][0], ok_ins[-1][1], "riu")]
        new += [(o, v, "n") for o, v in retry[0][:-1]] + [(retry[0][-1][0], retry[0][-1][1], "g0")]
    rr = [parse_trace(t) for t in traces_reset]
    if any(t is None or t["panicked"] for t in rr):
        raise ValueError("FileId::reset panicked")
    rs = shape(rr[0]["ops"], rr[1]["ops"])
    if rs is None:
        raise ValueError("FileId::reset is not one straight-line sequence of load/store/fetch_add")
    reset = [(o, v, "n") for o, v in rs[0][:-1]] + ([(rs[0][-1][0], rs[0][-1][1], "ru")] if rs[0] else [])
    return new, reset


def wire(prog):
    if not prog:
        return "-"
    return ";".join((o if v is None else f"{o}:{v:x}") + "/" + k for o, v, k in prog)


def coq_prog(prog):
    out = []
    for o, v, k in prog:
        op = {"fa": f"(FiFetchAdd {v})", "ld": "FiLoad", "sc": f"(FiStoreConst {v})", "sr": f"(FiStoreRegPlus {v})"}[o]
        ct = {"n": "FiKNext", "r": "FiKRet", "riu": "FiKRetIfUntagged", "ru": "FiKRetUnit"}.get(k) or f"(FiKGoto {int(k[1:])})"
        out.append(f"FiI {op} {ct}")
    if not out:
        return "  [ ]"
    return "  [ " + ";\n    ".join(out) + " ]"


def trace_readable(t):
    p = parse_trace(t)
    if p is None:
        return t
    parts = []
    for o in p["ops"]:
        s = o["kind"] + (f"({o['operand']})" if o["kind"] != "load" else "()")
        if o["read"] is not None:
            s += f" read {o['read']}"
        if o["written"] is not None and o["kind"] != "store":
            s += f" wrote {o['written']}"
        parts.append(s)
    r = " ; ".join(parts) if parts else "(no atomic operation)"
    if p["ret"] is not None:
        r += f" ; returned {p['ret']}"
    return r


def program_file(traces_new, traces_reset, new, reset, err):
    lines = ["(* GENERATED by driver/props/c31.py — do not edit.  Regenerated and diffed on every run of ./check C31.",
             "   The atomic-operation programs of FileId::new and FileId::reset, inferred from the operations the real code",
             "   performed on the counter NEXT (recorded through the cfg(apollo_rs_verif) hook):"]
    for s, t in zip(TRACE_STARTS_NEW, traces_new):
        lines.append(f"     FileId::new   at NEXT={s} : {trace_readable(t)}")
    for s, t in zip(TRACE_STARTS_RESET, traces_reset):
        lines.append(f"     FileId::reset at NEXT={s} : {trace_readable(t)}")
    if err:
        lines.append(f"   NOT RECOGNISED: {err}")
        lines.append("   (the empty programs below make every theorem about the allocator fail, as it must)")
    lines[-1] += " *)"
    lines += ["From ApolloVerif Require Import Base.Chars Mem.FileId.", "",
              "Definition fileid_new_program : fi_program :=", coq_prog(new or []) + ".", "",
              "Definition fileid_reset_program : fi_program :=", coq_prog(reset or []) + ".", "",
              "Definition fileid_programs : fi_programs := FiP fileid_new_program fileid_reset_program.", ""]
    return "\n".join(lines)


def regenerate(impl):
    tn = [run_family(impl, "fileid_trace", [f"{s:x} new"])[0] for s in TRACE_STARTS_NEW]
    trs = [run_family(impl, "fileid_trace", [f"{s:x} reset"])[0] for s in TRACE_STARTS_RESET]
    err = None
    try:
        new, reset = infer(tn, trs)
    except ValueError as e:
        new, reset, err = None, None, str(e)
    text = program_file(tn, trs, new, reset, err)
    old = PROGRAM_V.read_text() if PROGRAM_V.exists() else ""
    changed = text != old
    if changed:
        PROGRAM_V.write_text(text)
    return {"new": new, "reset": reset, "err": err, "changed": changed, "traces_new": tn, "traces_reset": trs,
            "old_text": old, "text": text}


# --------------------------------------------------------------------------- cases

def tail(todos):
    t = []
    for i, td in enumerate(todos.split(",")):
        t += [i] * (3 * len(td) + 3)
    return t


def sched_cases(pw, todos, length, starts):
    n = len(todos.split(","))
    tl = tail(todos)
    for s in starts:
        for pre in itertools.product(range(n), repeat=length):
            yield f"{pw} {s:x} {todos} {','.join(map(str, list(pre) + tl))}"


def describe_sched(c):
    f = c.split(" ")
    return {"NEXT_at_start": int(f[2], 16), "calls_per_thread(n=FileId::new,r=FileId::reset)": f[3].split(","),
            "schedule(thread id of each successive atomic operation on NEXT)": f[4]}


SCHEMAS = [
    """
    "The schema" schema { query: TheQuery }
    type TheQuery implements I { id: ID! ints: [[Int!]]! @deprecated(reason: "x") url(arg: In = { b: 4, a: 2 }): Url union: U }
    interface I { id: ID! }
    input In { a: Int! b: Int @deprecated }
    scalar Url @specifiedBy(url: "https://url.spec.whatwg.org/")
    union U = TheQuery | T
    type T { enum: E @deprecated other(x: Float = null, y: [String!] = ["a"]): I }
    enum E { NEW OLD @deprecated }
    directive @d(a: Int) repeatable on FIELD | QUERY
    """,
    """
    type Query { a: A b(f: Boolean = true): B node(id: ID!): Node }
    interface Node { id: ID! }
    type A implements Node { id: ID! name: String friends(first: Int = 10): [A!]! }
    type B implements Node { id: ID! name: Int! }
    type Mutation { set(v: Int!): Int }
    """,
    # invalid: diagnostics text is what gets compared
    """
    type Query { a: Missing b: Int b: String }
    interface I { x: Int }
    type T implements I { y: Int }
    scalar Int
    """,
]
DOCS = [
    "query Q($v: Int = 3) @d(a: $v) { id ... on TheQuery { ints url(arg: {a: 1}) } union { __typename ... on T { enum } } }",
    "{ id id: ints }",                                   # fields conflict
    "query A { nope } query A { id }",                   # unknown field, duplicate operation name
    "{ url(arg: {a: \"s\", zz: 1}) }",                   # input coercion errors quoting the shared schema
    "query ($x: In) { url(arg: $x) ...F } fragment F on TheQuery { id ...F }",
    "{ a { id name friends { name friends(first: 2) { id } } } b { name } node(id: 1) { id ... on A { name } ... on B { name } } }",
    "{ a { name } a { name: id } }",
    "mutation { set(v: 1) } subscription { x }",
    "{ __typename __schema { queryType { name } } }",
]
QUERIES = [
    "{ __schema { description queryType { name } types { name kind fields(includeDeprecated: true) { name isDeprecated "
    "args { name defaultValue type { kind name ofType { kind name } } } type { name kind ofType { name kind } } } "
    "possibleTypes { name } interfaces { name } enumValues(includeDeprecated: true) { name } inputFields { name } } "
    "directives { name locations isRepeatable args { name } } } }",
    "{ t: __type(name: \"TheQuery\") { name fields { name } } a: __type(name: \"A\") { name interfaces { name } } "
    "n: __type(name: \"Node\") { possibleTypes { name } } x: __type(name: \"Nope\") { name } __typename }",
    "query { __type(name: 3) { name } }",
]


def workload_cases(tier):
    hx = lambda l: ",".join(hexs(x) for x in l) or "-"
    cases = []
    for i, s in enumerate(SCHEMAS):
        for threads in ([8] if tier == "quick" else [2, 8, 16]):
            cases.append(f"{threads} {hexs(s)} {hexs(SCHEMAS[(i + 1) % len(SCHEMAS)])} {hx(DOCS)} {hx(QUERIES)}")
    if tier == "quick":
        cases.append(cases[0])
    else:
        cases = cases * 4
    return cases


def impl_only(ctx, impl, family, cases, describe, what, one_process_per_case=False):
    """families whose model answer is not available (or that have no model): the oracle alone"""
    if one_process_per_case:
        outs = []
        with ThreadPoolExecutor(max_workers=4) as ex:
            outs = list(ex.map(lambda c: run_family(impl, family, [c], timeout=600)[0], cases))
    else:
        outs = run_family(impl, family, cases)
    fam = ctx.cov["families"].setdefault(family + " (oracle only)", {"cases": 0, "ok": 0})
    rows = []
    for c, o in zip(cases, outs):
        obs, oracle = split_oracle(o)
        ctx.note_case(family + " " + c)
        fam["cases"] += 1
        rows.append((c, obs, oracle))
        if oracle == "ok":
            fam["ok"] += 1
            continue
        ctx.oracle_failures += 1
        ctx.violation({"family": family, "case": c, "case_readable": describe(c), "impl": obs, "oracle": oracle,
                       "what": what})
    return rows


# --------------------------------------------------------------------------- run

def run(ctx):
    impl = build_impl()
    gen = regenerate(impl)
    props = check_props(ctx.pid)
    if not props["ok"]:
        build_coq(["theories/Mem/FileId.vo", "theories/Mem/Pack.vo"])
    model = build_model()
    quick = ctx.tier == "quick"
    have_model = gen["err"] is None
    pw = (wire(gen["new"]) + " " + wire(gen["reset"])) if have_model else "- -"
    ctx.cov["generated_program"] = {
        "file": "coq/theories/Mem/FileIdProgram.v", "differs_from_committed_copy": gen["changed"],
        "fileid_new_program": wire(gen["new"]) if have_model else None,
        "fileid_reset_program": wire(gen["reset"]) if have_model else None,
        "not_recognised": gen["err"], "recorded": gen["traces_new"] + gen["traces_reset"],
    }

    # ---- (A) broke: look for a failing schedule in the model of the program the code now has, replay it
    if not props["ok"] and have_model:
        found = []
        for todos in ["n,n", "nn,n", "n,n,n", "nn,nn"]:
            for start in [3, TAG - 2, TAG - 1, TAG]:
                out = run_family(model, "fileid_search", [f"{pw} {start:x} {todos} 12"], timeout=600)[0]
                if out.startswith("found"):
                    pre = out.split(" ")[1]
                    pre = [] if pre == "-" else pre.split(",")
                    found.append(f"{pw} {start:x} {todos} {','.join(list(pre) + list(map(str, tail(todos))))}")
        ctx.cov["schedule_search"] = {"searched": "2-3 threads, 1-2 calls, NEXT in {3, 2^63-2, 2^63-1, 2^63}, schedules up to 12 steps",
                                      "model_witnesses": len(found)}
        if found:
            rows = impl_only(ctx, impl, "fileid_sched", found[:6], describe_sched,
                             "Props/C31.v no longer checks for the atomic-operation program recorded from the code; the "
                             "model of that program has this failing schedule, and replayed through the turnstile the "
                             "real FileId::new violates the property (oracle)")
            ctx.cov["schedule_search"]["replayed_on_impl"] = len(rows)

    # ---- forced schedules
    starts = [3, TAG - 2, TAG - 1, TAG]
    cfgs = [("nn,nn", 8), ("nn,rn", 7), ("n,n,n", 6), ("n,r,n", 6)] if quick else \
           [("nn,nn", 10), ("nnn,nnn", 10), ("nn,rn", 9), ("n,n,n", 8), ("n,r,n", 8), ("nn,nn,nn", 10), ("nr,n,nn", 9)]
    cases = []
    for todos, length in cfgs:
        cases += list(sched_cases(pw, todos, length, starts))
    if have_model and not ctx.violations:
        rows = ctx.correspond(impl, model, "fileid_sched", cases, describe=describe_sched,
                              nontrivial=lambda c, o: True)
        for c, i, m in rows[:: max(1, len(rows) // 3)]:
            ctx.sample({"family": "fileid_sched", "case": describe_sched(c), "impl": i, "model": m}, limit=4)
    elif not ctx.violations:
        impl_only(ctx, impl, "fileid_sched", cases, describe_sched,
                  "ids returned under a forced schedule violate the property (oracle; no model program available)")
    ctx.cov["families"].setdefault("fileid_sched", {})["configs"] = [
        f"threads/calls {t}: every schedule prefix of length {l} over the thread ids, then run to completion, NEXT in {{3, 2^63-2, 2^63-1, 2^63}}"
        for t, l in cfgs]

    # ---- free running
    fcases = []
    for rep in range(2 if quick else 10):
        for s in [3, 1 << 40, TAG - 4000]:
            fcases.append(f"{pw} {s:x} 8 1000")
    if have_model:
        ctx.correspond(impl, model, "fileid_free", fcases,
                       describe=lambda c: {"NEXT_at_start": int(c.split(' ')[2], 16), "threads": 8, "calls_each": 1000})
    else:
        impl_only(ctx, impl, "fileid_free", fcases, lambda c: c, "free-running FileId::new violates the property (oracle)")

    # ---- packing
    ids = {1, 2, 3, TAG - 1, TAG - 2}
    for k in range(0, 63):
        ids |= {1 << k, (1 << k) + 1, max(1, (1 << k) - 1)}
    nrand = 20000 if quick else 1000000
    for _ in range(nrand):
        bits = ctx.rng.randint(1, 63)
        ids.add(ctx.rng.randint(1, (1 << bits) - 1))
    pcases = [f"{i:x} {t}" for i in sorted(x for x in ids if 0 < x < TAG) for t in (0, 1)]
    ctx.correspond(impl, model, "tfi_pack", pcases,
                   describe=lambda c: {"id": int(c.split(' ')[0], 16), "tag": c.split(' ')[1] == "1"})

    # ---- concurrent workload on one shared Valid<Schema>, one fresh process per case
    wcases = workload_cases(ctx.tier)
    wrows = impl_only(ctx, impl, "shared_workload", wcases,
                      lambda c: {"threads": int(c.split(' ')[0]), "schema": unhexs(c.split(' ')[1])},
                      "results computed by several threads against one shared Valid<Schema> (first touches of the lazily "
                      "initialised statics raced from a fresh process) differ from the sequential results",
                      one_process_per_case=True)
    ctx.cov["families"]["shared_workload (oracle only)"]["observations"] = [o for _, o, _ in wrows[:4]]

    # ---- shared-state inventory
    listed = {it["file"] + " :: " + it["code"] for it in json.load(open(VERIF / "corpus" / "C31" / "shared_state.json"))}
    now = c31_scan.scan(repo_path())
    new_items = [it for it in now if c31_scan.key(it) not in listed]
    ctx.cov["shared_state_inventory"] = {"items_in_source": len(now), "committed_list": len(listed),
                                         "unlisted": [f"{it['file']}:{it['line']}: {it['code']}" for it in new_items]}
    if new_items and not ctx.violations:
        ctx.violation({
            "what": "obligation broken: shared mutable state not in the committed inventory corpus/C31/shared_state.json "
                    "(no argument on file that it is thread-safe); the concurrent workload found no discrepancy",
            "items": [f"{it['file']}:{it['line']}: {it['code']}" for it in new_items],
        }, no_input=True)

    ctx.cov["rule"] = (
        "fileid_sched: for each thread/call configuration and NEXT in {3, 2^63-2, 2^63-1, 2^63}, EVERY prefix of the given "
        "length over the thread ids (so every interleaving of the atomic operations that fits), completed sequentially; "
        "ids per thread, final counter compared with the model's run of the same schedule on the generated program. "
        "fileid_free: 8 threads x 1000 calls unscheduled, summary compared with the model (distinct, contiguous, in range). "
        f"tfi_pack: all boundary ids (2^k, 2^k+-1, 1..3, 2^63-1) and {nrand} random ids of random bit length, both tags. "
        "shared_workload: oracle only (8 threads vs sequential, per item). All cases count as non-trivial.")
    ctx.cov["exhaustive"] = "fileid_sched: exhaustive over schedule prefixes of the stated length"
    ctx.assumptions += [
        "the program the theorems are about is inferred from four recorded executions of FileId::new and two of FileId::reset "
        "(translator in driver/props/c31.py, trusted); control flow other than `attempt; if tagged {retry ops; loop}` is reported as not recognised",
        "atomic operations are sequentially consistent single steps in the model (the code uses AcqRel/Release on one location; "
        "a single atomic location is coherent, weaker orderings on it cannot be distinguished by this program)",
        "C31_never_reserved needs fewer than 2^63 threads and NEXT in [3, 2^63] initially",
        "the last sentence of the property (shared schema use) is claimed through: no interior mutability reachable from a shared "
        "schema other than the listed OnceLocks (inventory), C31_once for those, Rust's Send/Sync checking, and the workload",
    ]
    return ctx.finish(props)


def replay(ctx, path):
    r = json.load(open(path))
    impl = build_impl()
    if "family" not in r:
        print(json.dumps(r, indent=1))
        return 0
    fam, case = r["family"], r["case"]
    print("case :", json.dumps(r.get("case_readable", case)))
    print("impl :", run_family(impl, fam, [case])[0])
    if fam in ("fileid_sched", "fileid_free", "tfi_pack") and not case.startswith("- -"):
        model = build_model()
        print("model:", run_family(model, fam, [case])[0])
    return 0
