"""C20 — validating without a schema is a relaxation."""
import json
from common import *
from props import exec_gen as G
from props import exec_util as U

FIXED = [
    ("type Query { a: Int, b(x: Int): Int }",
     ["query($v: Boolean!) { a @skip(if: $v) }", "{ a @include(if: true) @deprecated @anything(x: 1) }", "{ a @d(x: 1, x: 2) }",
      "query($v: Int, $v: Int) { b(x: $v) }", "query($v: Int) { a }", "{ b(x: $undefined) }", "{ ...F }", "{ a } fragment F on Query { a }",
      "{ ...F } fragment F on Query { ...G } fragment G on Query { ...F }", "{ a } { a }", "query A { a } query A { a }", "{ a } query A { a }",
      "{ ...F } fragment F on Query { a } fragment F on Query { a }", "{ a } type T { x: Int }", "{ b(x: 1, x: 2) }",
      "{ ... @defer(label: \"l\") { a } ... @defer(label: \"l\") { a } }", "query($l: String) { ... @defer(label: $l) { a } }",
      "mutation { ... @defer { a } }", "subscription { a { ... @defer { a } } }", "subscription { a { ... @defer(if: false) { a } } }",
      "subscription { a @skip(if: true) { ... @defer { a } } }", "{ zz { yy } }", "{ a { b } }", "mutation { a }", "subscription { a }",
      "query($v: Int @d(x: 1, x: 1)) { b(x: $v) }", "query @d(a: 1, a: 2) { a }", "{ ...F } fragment F on Nowhere @d(x: 1, x: 2) { a }",
      "{ ... on Nowhere @d(x: 1, x: 2) { a } }", "{ ...F @d(x: 1, x: 2) } fragment F on Query { a }"]),
]


def compare(i, m):
    if i == "syntax":
        return False
    iv = dict(x.split("=") for x in i.split(" "))
    mv = dict(x.split("=") for x in m.split(" "))
    if mv.get("fuel") != "ok":
        return False
    if iv["alone"] != mv["alone"]:
        return False
    # the hypothesis of the theorems: a schema the real validator accepts is closed
    if iv["with"] != "-" and mv["closed"] != "t":
        return False
    # every standalone rule is a conjunct of validation with a schema, evaluated on the typed document
    if iv["with"] == "t" and mv["typed"] != "t":
        return False
    return True


def run(ctx):
    props = check_props(ctx.pid)
    model = build_model()
    impl = build_impl()
    quick = ctx.tier == "quick"
    pairs = []
    for s, docs in FIXED:
        sc = G.Sch()
        sc.text = s
        e = U.schema_terms(impl, [sc])[0]
        for d in docs:
            pairs += [(e, d + "\n"), (None, d + "\n")]
        # the depth limits of the validators: fragment chains around 100 (cycle detection) and 500 (walkers)
        for n in (98, 99, 100, 101, 102, 498, 499, 500, 501, 502):
            pairs += [(e, G.chain_doc(n).replace(" on A ", " on Query ").replace("{ a { ...F0 } }", "{ ...F0 }").replace("{ id }", "{ a }"))]
        pairs += [(e, G.chain_doc(3, cyclic=True).replace(" on A ", " on Query ").replace("{ a { ...F0 } }", "{ ...F0 }"))]
    n_s, per = (120, 50) if quick else (500, 80)
    # mostly valid documents, with directives at every location; then increasingly broken ones
    entries, gen = U.gen_pairs(ctx, impl, n_s, per, [0.0, 0.0, 0.0, 0.02, 0.05, 0.0, 0.12, 0.0], broken_share=0.05,
                               schemaless_share=0.2)
    pairs += gen
    cases, dropped = U.make_cases(impl, pairs)
    rows = ctx.correspond(impl, model, "xstandalone", cases, describe=U.describe_case, compare=compare,
                          nontrivial=lambda c, o: True)
    fam = ctx.cov["families"]["xstandalone"]
    fam["documents_with_syntax_errors_dropped"] = dropped
    for key in ("with=t alone=t", "with=f alone=t", "with=f alone=f", "with=- alone=t", "with=- alone=f", "with=t alone=f"):
        fam[key] = sum(1 for _, i, _ in rows if i == key)
    fam["rule_vectors(build,operations,fragments_used,defer)"] = {}
    for _, _, m in rows:
        v = m.rsplit("rules=", 1)[-1]
        fam["rule_vectors(build,operations,fragments_used,defer)"][v] = fam["rule_vectors(build,operations,fragments_used,defer)"].get(v, 0) + 1
    for c, i, m in rows[:: max(1, len(rows) // 5)]:
        ctx.sample({"family": "xstandalone", "case": U.describe_case(c), "impl": i, "model": m}, limit=5)
    ctx.cov["rule"] = (
        f"{n_s} generated schemas x {per} documents (5 of 8 valid by construction with built-in and custom directives at every "
        "location, variables, fragments, @defer; the rest with 2%..12% per-decision errors), 20% also as schema-less cases, "
        "plus hand-written documents for every standalone rule and fragment chains around the limits 100 and 500. "
        "Observation: (verdict with the schema, standalone verdict); the model gives the standalone verdict and the standalone "
        "rules evaluated on the schema-typed document. Every case counts.")
    ctx.cov["exhaustive"] = False
    ctx.assumptions += [
        "validation with a schema has no model: C20's theorems take it as `build without errors && standalone rules on the typed document && <any other rules>`; "
        "that the real validator contains the standalone rules as conjuncts is checked here on every case (with=t implies typed=t) and by the oracle",
        "documents are fed as ASTs produced by the real parser; schemas as built by the real builder",
    ]
    return ctx.finish(props)


def replay(ctx, path):
    r = json.load(open(path))
    model = build_model()
    impl = build_impl()
    fam, case = r["family"], r["case"]
    print("case :", json.dumps(r.get("case_readable", ""), ensure_ascii=False)[:3000])
    print("impl :", run_family(impl, fam, [case])[0])
    print("model:", run_family(model, fam, [case])[0])
    return 0
