"""Helpers shared by the C10 and C29 drivers (type descriptors, the spec-side oracle step)."""


def oracle_rows(ctx, family, rows, spec, observed, classify=None, describe=None, what=None):
    """Oracle (C) computed by the driver: for every row (case, impl_obs, model_obs) compare
    observed(impl_obs) with spec(case) (an independent transcription of the specification).
    A difference inside a listed known-finding class is reported once as KNOWN-FINDING,
    any other difference is a violation with that case as replay.  Returns the number of known hits."""
    fam = ctx.cov["families"].setdefault(family, {"cases": 0, "agree": 0, "known": 0})
    fam.setdefault("oracle_checked", 0)
    hits = 0
    for c, iobs, mo in rows:
        want = spec(c)
        if want is None:
            continue
        fam["oracle_checked"] += 1
        got = observed(iobs)
        if got == want:
            continue
        cls = classify(c, iobs, mo) if classify else None
        if cls and ctx.known_hit(cls):
            fam["known"] += 1
            hits += 1
            continue
        ctx.oracle_failures += 1
        if len(ctx.violations) < 8:
            ctx.violation({
                "family": family, "case": c, "case_readable": describe(c) if describe else c,
                "impl": iobs, "model": mo, "spec": want,
                "what": what or "the implementation's verdict differs from the specification's",
            })
        else:
            ctx.violations.append("(not written)")
    return hits


def all_types(names, max_lists):
    """every type descriptor with at most max_lists list wrappers: 'l' List, 'L' NonNullList,
    then 'n' Named / 'N' NonNullNamed, then the name"""
    out = []
    level = [""]
    for d in range(max_lists + 1):
        for w in level:
            for n in names:
                out.append(w + "n" + n)
                out.append(w + "N" + n)
        level = [w + x for w in level for x in "lL"]
    return out


def parse_desc(d):
    """descriptor -> nested tuple in the specification's view: ('named', n) | ('list', t) | ('nonnull', t)"""
    c = d[0]
    if c == "l":
        return ("list", parse_desc(d[1:]))
    if c == "L":
        return ("nonnull", ("list", parse_desc(d[1:])))
    if c == "n":
        return ("named", d[1:])
    if c == "N":
        return ("nonnull", ("named", d[1:]))
    raise ValueError(d)


def show_desc(d):
    c = d[0]
    if c == "l":
        return "[" + show_desc(d[1:]) + "]"
    if c == "L":
        return "[" + show_desc(d[1:]) + "]!"
    if c == "n":
        return d[1:]
    return d[1:] + "!"
