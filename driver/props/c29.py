"""C29 — type compatibility checks match the specification."""
import json
from common import *
from props.c10_util import oracle_rows, all_types, parse_desc, show_desc

SCHEMA1 = "A:o:I;B:o:;I:i:;U:u:A,B"
SCHEMA2 = "A:o:I,I2;B:o:I2;I:i:I2;I2:i:;U:u:A,B;V:u:B"


# ---- the specification, transcribed independently of the Gallina one (October 2021) ----

def are_types_compatible(v, l):
    if l[0] == "nonnull":                       # 1
        if v[0] != "nonnull":
            return False
        return are_types_compatible(v[1], l[1])
    if v[0] == "nonnull":                       # 2
        return are_types_compatible(v[1], l)
    if l[0] == "list":                          # 3
        if v[0] != "list":
            return False
        return are_types_compatible(v[1], l[1])
    if v[0] == "list":                          # 4
        return False
    return v == l                               # 5


def is_variable_usage_allowed(vt, vdefault, lt, ldefault):
    if lt[0] == "nonnull" and vt[0] != "nonnull":                 # 3
        has_non_null_variable_default = vdefault == "val"         # exists and is not the value null
        has_location_default = ldefault != "-"                    # exists
        if not has_non_null_variable_default and not has_location_default:
            return False
        return are_types_compatible(vt, lt[1])
    return are_types_compatible(vt, lt)                           # 4


def schema_kinds(desc):
    k = {}
    for e in desc.split(";"):
        n, kind, l = e.split(":")
        k[n] = (kind, [x for x in l.split(",") if x])
    return k


def spec_subtype(kinds, implemented, field):
    f, i = kinds.get(field), kinds.get(implemented)
    if not f or not i:
        return False
    if f[0] == "o" and i[0] == "u" and field in i[1]:             # 4: object, union, possible type
        return True
    if f[0] in "oi" and i[0] == "i" and implemented in f[1]:      # 5: declares it implements
        return True
    return False


def is_valid_implementation_field_type(kinds, ft, it):
    if ft[0] == "nonnull":                                        # 1
        return is_valid_implementation_field_type(kinds, ft[1], it[1] if it[0] == "nonnull" else it)
    if ft[0] == "list" and it[0] == "list":                       # 2
        return is_valid_implementation_field_type(kinds, ft[1], it[1])
    if ft == it:                                                  # 3
        return True
    if ft[0] == "named" and it[0] == "named" and spec_subtype(kinds, it[1], ft[1]):   # 4, 5
        return True
    return False                                                  # 6


def union_members_are_objects(kinds):
    return all(kinds.get(m, ("?",))[0] == "o" for k, (kind, l) in kinds.items() if kind == "u" for m in l)


# ---- the corner of the former defect D13 (Compat.compat_null_default_class); counted, not filtered ----

def null_default_class(case):
    site, vt, vd, lt, ld = case.split()
    return lt[0] in "LN" and vt[0] not in "LN" and vd == "null" and ld == "-"


def describe_usage(case):
    site, vt, vd, lt, ld = case.split()
    dv = {"-": "", "null": " = null", "val": " = <value>"}
    where = "f(a: $v)" if site == "field" else "g @d(a: $v)"
    return f"query($v: {show_desc(vt)}{dv[vd]}) {{ {where} }}  with  a: {show_desc(lt)}{dv[ld]}"


def run(ctx):
    props = check_props(ctx.pid)
    model = build_model()
    impl = build_impl()
    quick = ctx.tier == "quick"

    # (1) is_assignable_to: every pair of types with <= 3 list wrappers over four names
    types4 = all_types(["A", "B", "I", "U"], 3 if quick else 4)
    if not quick:
        types4 = types4[:]  # 248 types, 61504 pairs
    cases = [f"{a} {b}" for a in types4 for b in types4]
    rows = ctx.correspond(impl, model, "c29_assignable", cases,
                          nontrivial=lambda c, o: o == "1" or c.split()[0].lstrip("lL")[1:] == c.split()[1].lstrip("lL")[1:],
                          describe=lambda c: " -> ".join(show_desc(x) for x in c.split()))
    oracle_rows(ctx, "c29_assignable", rows,
                spec=lambda c: "1" if are_types_compatible(*(parse_desc(x) for x in c.split())) else "0",
                observed=lambda o: o, describe=lambda c: " -> ".join(show_desc(x) for x in c.split()),
                what="Type::is_assignable_to differs from AreTypesCompatible")
    fam = ctx.cov["families"]["c29_assignable"]
    fam["assignable"] = sum(1 for _, i, _ in rows if i == "1")
    fam["exhaustive_upto_list_depth"] = 3 if quick else 4

    # (2) the variable usage rule through validation of a one-variable query
    types2 = all_types(["A", "B"], 2 if quick else 3)
    ucases = []
    for site in ("field", "directive"):
        for vt in types2:
            for lt in types2:
                for vd in ("-", "null", "val"):
                    if vd == "null" and vt[0] in "LN":
                        continue        # `null` is not a valid default of a non-null variable: another rule fires
                    for ld in ("-", "null", "val"):
                        if ld == "null" and lt[0] in "LN":
                            continue
                        ucases.append(f"{site} {vt} {vd} {lt} {ld}")
    # the witness of the former defect D13 first, so that a regression is reported with the canonical input
    first = ["field nA null NA -", "directive nA null NA -"]
    ucases = first + [c for c in ucases if c not in set(first)]
    rows = ctx.correspond(impl, model, "c29_usage", ucases, describe=describe_usage,
                          compare=lambda i, m: i.split()[0] == m)
    oracle_rows(ctx, "c29_usage", rows,
                spec=lambda c: "allowed=%d" % is_variable_usage_allowed(
                    parse_desc(c.split()[1]), c.split()[2], parse_desc(c.split()[3]), c.split()[4]),
                observed=lambda o: o.split()[0], describe=describe_usage,
                what="the variable usage verdict differs from IsVariableUsageAllowed")
    fam = ctx.cov["families"]["c29_usage"]
    fam["allowed"] = sum(1 for _, i, _ in rows if i.startswith("allowed=1"))
    fam["not_isolated"] = sum(1 for _, i, _ in rows if not i.endswith("others=-"))
    fam["null_default_in_non_null_position"] = sum(1 for c, _, _ in rows if null_default_class(c))
    for c, i, m in rows:
        if null_default_class(c) and are_types_compatible(parse_desc(c.split()[1]), parse_desc(c.split()[3])[1]):
            ctx.sample({"family": "c29_usage", "case": describe_usage(c), "impl": i, "model": m}, limit=2)

    # (3) the implementation field type rule through schema validation
    icases = []
    for sch, names, depth in ((SCHEMA1, ["A", "B", "I", "U"], 2), (SCHEMA2, ["A", "B", "I", "I2", "U", "V"], 1 if quick else 2)):
        ts = all_types(names, depth)
        for site in ("object", "interface"):
            for a in ts:
                for b in ts:
                    icases.append(f"{sch} {site} {a} {b}")
    if quick:
        # keep every pair for the object site and a third of the interface site
        icases = [c for k, c in enumerate(icases) if c.split()[1] == "object" or k % 3 == 0]
    desc_impl = lambda c: "%s field f: %s implements interface field f: %s  [%s]" % (
        c.split()[1], show_desc(c.split()[3]), show_desc(c.split()[2]), c.split()[0])
    rows = ctx.correspond(impl, model, "c29_impl", icases, describe=desc_impl,
                          compare=lambda i, m: i.split()[0] == m)
    kinds_cache = {s: schema_kinds(s) for s in (SCHEMA1, SCHEMA2)}
    oracle_rows(ctx, "c29_impl", rows,
                spec=lambda c: "valid=%d" % is_valid_implementation_field_type(
                    kinds_cache[c.split()[0]], parse_desc(c.split()[3]), parse_desc(c.split()[2])),
                observed=lambda o: o.split()[0], describe=desc_impl,
                what="the implementation field type verdict differs from IsValidImplementationFieldType")
    fam = ctx.cov["families"]["c29_impl"]
    fam["valid"] = sum(1 for _, i, _ in rows if i.startswith("valid=1"))
    fam["valid_by_subtype"] = sum(1 for c, i, _ in rows if i.startswith("valid=1")
                                  and c.split()[2].lstrip("lL")[1:] != c.split()[3].lstrip("lL")[1:])
    fam["not_isolated"] = sum(1 for _, i, _ in rows if not i.endswith("others=-"))

    # (4) Schema::is_subtype directly, on generated schemas (also ill-formed ones)
    scases = []
    pool = ["A", "B", "I", "J", "U", "S"]
    schemas = [SCHEMA1, SCHEMA2]
    for _ in range(60 if quick else 600):
        entries = []
        for n in ctx.rng.sample(pool, ctx.rng.randint(2, 6)):
            k = ctx.rng.choice("ooiius")
            l = ctx.rng.sample(pool, ctx.rng.randint(0, 3)) if k != "s" else []
            if k == "u" and not l:
                l = [ctx.rng.choice(pool)]
            entries.append(f"{n}:{k}:{','.join(l)}")
        schemas.append(";".join(entries))
    for sch in schemas:
        ns = sorted(set(e.split(":")[0] for e in sch.split(";")) | {"Zz", "Int"})
        for a in ns:
            for b in ns:
                scases.append(f"{sch} {a} {b}")
    rows = ctx.correspond(impl, model, "c29_subtype", scases, nontrivial=lambda c, o: True)

    def sub_spec(c):
        sch, a, b = c.split()
        kinds = schema_kinds(sch)
        if not union_members_are_objects(kinds):
            return None
        return "1" if spec_subtype(kinds, a, b) else "0"
    oracle_rows(ctx, "c29_subtype", rows, spec=sub_spec, observed=lambda o: o,
                what="Schema::is_subtype differs from the subtype conditions of IsValidImplementationFieldType (steps 4, 5)")
    ctx.cov["families"]["c29_subtype"]["subtypes"] = sum(1 for _, i, _ in rows if i == "1")

    ctx.cov["rule"] = (
        "c29_assignable: every ordered pair of types with <= %d list wrappers (all nullability combinations) over "
        "{A, B, I, U}; c29_usage: every pair of types with <= %d list wrappers over two custom scalars x variable default "
        "{none, null, value} x location default {none, null, value} (null only where the type is nullable) x usage site "
        "{field argument, directive argument}, verdict = absence of DisallowedVariableUsage; c29_impl: every pair of types "
        "with <= 2 list wrappers over {A, B, I (interface of A), U = A | B} and a second schema with an interface hierarchy, "
        "for an object and for an interface implementer, verdict = absence of InvalidImplementationFieldType; c29_subtype: "
        "Schema::is_subtype on every pair of names of generated schemas. Each verdict is compared with the extracted model "
        "and with an independent Python transcription of the October 2021 algorithms."
        % (3 if quick else 4, 2 if quick else 3))
    ctx.cov["exhaustive"] = True
    ctx.assumptions += [
        "is_variable_usage_allowed and is_valid_implementation_field_type are private: they are observed through the "
        "presence of one diagnostic kind in minimal documents/schemas; other diagnostics are counted (not_isolated), not compared",
        "variables nested in list / input object literals do not go through is_variable_usage_allowed (D12d, property C17)",
        "the subtype relation of the theorem is a parameter; Schema::is_subtype is tied separately (c29_subtype) and proved "
        "equal to the specification's steps 4 and 5 when union members are object types",
    ]
    return ctx.finish(props)


def replay(ctx, path):
    r = json.load(open(path))
    model = build_model()
    impl = build_impl()
    fam, case = r["family"], r["case"]
    print("case :", r.get("case_readable", case))
    print("impl :", run_family(impl, fam, [case])[0])
    print("model:", run_family(model, fam, [case])[0])
    if "spec" in r:
        print("spec :", r["spec"])
    return 0
