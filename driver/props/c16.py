"""C16 — validation is idempotent; restores exactly the removed built-in scalars."""
import json
import re
from common import *
from props.sch_util import *

SCALARS = sch_gen.BUILTIN_SCALARS
EXEC_SCHEMA = "type Query { a: Int b: String q: Query l: [Int] } "
EXEC_DOCS = [
    "{ a }", "query A { a b }", "query A { q { a } } query B { b }", "fragment F on Query { a } query { ...F q { ...F } }",
    "query ($v: Int = 1) { a @skip(if: true) l }", "{ x: a y: a }", "{ q { q { q { b } } } }", "{ undefinedField }",
    "query A { a } query A { b }", "{ a { b } }", "{ __typename __schema { types { name } } }",
]


def run(ctx):
    props = check_props(ctx.pid)
    model = build_model()
    impl = build_impl()
    setup_builtin(impl)
    n = 2500 if ctx.tier == "quick" else 10000
    raw = []
    for name, text in corpus_texts("C16"):
        for adds in (["Int"], ["Float", "ID"], ["ID", "Float", "ID", "String"], []):
            raw.append(("corpus:" + name, text, "Query", adds))
    for _ in range(n):
        fl = ctx.rng.choice(["valid", "valid", "valid", "clean", "dirty"])
        items = sch_gen.gen_history(ctx.rng, fl)
        objs = [i.target for i in items if i.role == "def" and i.kind == "object"]
        tname = ctx.rng.choice(objs) if objs and ctx.rng.random() < 0.9 else ctx.rng.choice(["Query", "E", "Nope"])
        adds = [ctx.rng.choice(SCALARS + ['Float', 'ID', 'ID', 'Float', 'Int']) for _ in range(ctx.rng.choice([0, 1, 1, 2, 2, 3]))]
        raw.append((fl, sch_gen.text_of(items), tname, adds))
    asts = ast_stage(impl, [t for _, t, _, _ in raw])
    lines, meta, syntax = [], [], 0
    for (fl, t, tname, adds), a in zip(raw, asts):
        if a is None:
            syntax += 1
            continue
        lines.append(f"{hexs(t)} {a} {tname} {','.join(adds) or '-'}")
        meta.append((fl, t, tname, adds))
    desc = lambda c: f"add fields of types {c.split(' ')[3]} to {c.split(' ')[2]}\n" + unhexs(c.split(" ")[0])
    rows = ctx.correspond(impl, model, "c16_hist", lines, describe=desc, nontrivial=lambda c, o: True,
                          compare=lambda i, m: re.sub(r" v=\d+", "", i) == m)
    fam = ctx.cov["families"]["c16_hist"]
    fam["valid_histories"] = sum(1 for _, i, _ in rows if " v=11" in i)
    fam["pruned_some_scalar"] = sum(1 for _, i, _ in rows if len(i.split(" ")[1]) < len(i.split(" ")[0]))
    fam["restored_some_scalar"] = sum(1 for _, i, _ in rows if len(i.split(" ")[2]) > len(i.split(" ")[1]))
    fam["restored_two_or_more"] = sum(
        1 for _, i, _ in rows if len(i.split(" ")[2].split(",")) >= len(i.split(" ")[1].split(",")) + 2)
    for (fl, t, tn, adds), (c, i, m) in list(zip(meta, rows))[:: max(1, len(rows) // 3)]:
        ctx.sample({"family": "c16_hist", "flavour": fl, "source": t, "type": tn, "adds": adds, "impl": i}, limit=4)
    # --- executable documents validated twice (implementation-only oracle)
    elines = sorted({f"{hexs(EXEC_SCHEMA)} {hexs(d)}" for d in EXEC_DOCS})
    rows = ctx.correspond(impl, model, "c16_exec", elines, nontrivial=lambda c, o: o.startswith("valid"),
                          describe=lambda c: unhexs(c.split(" ")[1]), compare=lambda i, m: True)
    ctx.cov["families"]["c16_exec"]["valid"] = sum(1 for _, i, _ in rows if i.startswith("valid"))
    ctx.cov["families"]["c16_exec"]["note"] = "implementation-only oracle: validate; into_inner; validate"
    ctx.cov["syntax_errors_skipped"] = syntax
    ctx.cov["rule"] = (
        f"corpus/C16 plus {n} generated schema histories (sch_gen.py, mostly the `valid` flavour); each is built, validated, "
        "unwrapped, validated again, then 0-3 fields of random built-in scalar types are added to an object type through make_mut, "
        "validated, unwrapped, validated. Observation: the key list of Schema::types after every step (model: Scalars.v on the "
        "schema built by Build.v) — also for schemas that do not validate, since the prune/insert step runs regardless; oracle on the "
        "implementation: re-validation leaves keys and the schema unchanged and keeps the verdict, the added scalars are exactly the "
        "referenced missing ones, appended in order of first reference. c16_exec: ExecutableDocument::validate twice.")
    ctx.cov["exhaustive"] = False
    ctx.assumptions += [
        "only the built-in scalar bookkeeping of validate_schema is modelled (the validation rules are C14's); verdicts are observed on the implementation only",
        "fields are added under fresh names (zz0, zz1, ..) without arguments",
    ]
    return ctx.finish(props)


def replay(ctx, path):
    r = json.load(open(path))
    model = build_model()
    impl = build_impl()
    setup_builtin(impl)
    fam, case = r["family"], r["case"]
    print("case :", r.get("case_readable", case))
    print("impl :", run_family(impl, fam, [case])[0])
    print("model:", run_family(model, fam, [case])[0])
    return 0
