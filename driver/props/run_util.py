"""Shared helpers of the execution properties (C26, C27, C28): two-stage ties.

The driver generates GraphQL / JSON *text*; the real crates turn it into data (schema_dump, ast_dump,
json_dump families); the model families read that data.  So the implementation and the model receive
different case lines for the same case; `correspond_pairs` is Ctx.correspond for that situation."""
from common import *


def dump_all(impl, family, texts, prefix=""):
    """run a dump family over distinct texts; returns {text: dump or None (when not `ok`)}"""
    texts = sorted(set(texts))
    outs = run_family(impl, family, [prefix + hexs(t) for t in texts])
    res = {}
    for t, o in zip(texts, outs):
        res[t] = o[3:] if o.startswith("ok ") else None
    return res


def correspond_pairs(ctx, impl, model, family, triples, classify=None, nontrivial=None, compare=None,
                     model_family=None):
    """triples: (impl_case, model_case, readable).  Returns rows (impl_case, impl_obs, model_obs, readable).
    classify(readable, impl_obs, model_obs) -> known class or None."""
    triples = list(triples)
    iout = run_family(impl, family, [t[0] for t in triples])
    mout = run_family(model, model_family or family, [t[1] for t in triples])
    fam = ctx.cov["families"].setdefault(family, {"cases": 0, "agree": 0, "known": 0})
    rows = []
    for (ic, mc, rd), io, mo in zip(triples, iout, mout):
        iobs, oracle = split_oracle(io)
        ctx.note_case(family + " " + ic, nontrivial(rd, iobs) if nontrivial else True)
        fam["cases"] += 1
        rows.append((ic, iobs, mo, rd))
        agree = compare(iobs, mo) if compare else (iobs == mo)
        bad_oracle = oracle is not None and oracle != "ok"
        if agree and not bad_oracle:
            fam["agree"] += 1
            continue
        cls = classify(rd, iobs, mo) if classify else None
        if cls and ctx.known_hit(cls):
            fam["known"] += 1
            continue
        if mo.startswith("model-"):
            raise MachineryError(f"model runner failed on {family} {rd}: {mo}")
        if not agree:
            ctx.disagreements += 1
        if bad_oracle:
            ctx.oracle_failures += 1
        if len(ctx.violations) < 8:
            ctx.violation({
                "family": family, "case": ic, "model_case": mc, "case_readable": rd,
                "impl": iobs, "model": mo, "oracle": oracle,
                "what": ("the implementation's observation differs from the model's "
                         "(the model satisfies the property by the theorems of Props/%s.v)" % ctx.pid)
                        if not agree else "the property's oracle fails on the implementation",
            })
        else:
            ctx.violations.append("(not written)")
    return rows


# ---------------------------------------------------------------- resolver worlds (harness/src/c26.rs)
def w_str(x):
    return "h" + x.encode("utf-8").hex() if x else "e"


def beh_leaves(b, acc):
    if isinstance(b, tuple) and b[0] == "leaf":
        acc.add(b[1])
    elif isinstance(b, tuple) and b[0] == "list":
        for x in b[1]:
            beh_leaves(x, acc)


def beh_text(b, leaf):
    """leaf: function JSON text -> encoding of the leaf (hex of the text for the harness, compact for the model)"""
    if b == "err":
        return "Re"
    if b == "skip":
        return "Rs"
    if b == "echo":
        return "Rg"
    if b[0] == "leaf":
        return "Rl(%s)" % leaf(b[1])
    if b[0] == "obj":
        return "Ro(n%d,%s)" % (b[1], w_str(b[2]))
    if b[0] == "list":
        return "Ra([%s])" % ";".join(beh_text(x, leaf) for x in b[1])
    raise ValueError(b)


def world_text(w, leaf):
    return "[" + ";".join("W(n%d,%s,%s)" % (o, w_str(f), beh_text(b, leaf)) for (o, f, b) in w) + "]"


def world_leaves(w):
    acc = set()
    for _, _, b in w:
        beh_leaves(b, acc)
    return acc


def exec_triples(impl, cases, valid_family="exec_sync", extra=None):
    """cases: (schema, doc, vars json text, world[, extra fields]).  Returns (triples, skipped).
    First stage: schema/AST/JSON dumps from the real crates; invalid schema/document pairs are dropped."""
    pairs = sorted({(c[0], c[1]) for c in cases})
    valid = run_family(impl, "coerce_vars", [f"{hexs(s)} {hexs(d)} {hexs('{}')}" for s, d in pairs])
    ok_pair = {p for p, o in zip(pairs, valid) if not o.startswith("invalid")}
    sd = dump_all(impl, "schema_dump", [s for s, _ in ok_pair], prefix="u ")
    dd = dump_all(impl, "ast_dump", [d for _, d in ok_pair])
    jtexts = {c[2] for c in cases}
    for c in cases:
        jtexts |= world_leaves(c[3])
    jd = dump_all(impl, "json_dump", jtexts)
    triples, skipped = [], 0
    for c in cases:
        s, d, v, w = c[:4]
        tail = (" " + " ".join(c[4:])) if len(c) > 4 else ""
        if (s, d) not in ok_pair or sd[s] is None or dd[d] is None or jd[v] is None:
            skipped += 1
            continue
        ic = f"{hexs(s)} {hexs(d)} {hexs(v)} {world_text(w, lambda t: w_str(t))}{tail}"
        mc = f"{sd[s]} {dd[d]} {jd[v]} {world_text(w, lambda t: jd[t])}{tail}"
        triples.append((ic, mc, f"{s!r} {d!r} {v} world={w!r}{tail}"))
    return triples, skipped, len(pairs) - len(ok_pair)
