"""Shared helpers of the execution properties (C26, C27, C28): two-stage ties.

The driver generates GraphQL / JSON *text*; the real crates turn it into data (schema_dump, ast_dump,
json_dump families); the model families read that data.  So the implementation and the model receive
different case lines for the same case; `correspond_pairs` is Ctx.correspond for that situation."""
from common import *


def dump_all(impl, family, texts, prefix=""):
    """run a dump family over distinct texts; returns {text: dump or None (when not `ok`)}"""
    texts = sorted(set(texts))
    outs = run_family(impl, family, [prefix + hexs(t) for t in texts])
    res = {}
    for t, o in zip(texts, outs):
        res[t] = o[3:] if o.startswith("ok ") else None
    return res


def correspond_pairs(ctx, impl, model, family, triples, classify=None, nontrivial=None, compare=None,
                     model_family=None):
    """triples: (impl_case, model_case, readable).  Returns rows (impl_case, impl_obs, model_obs, readable).
    classify(readable, impl_obs, model_obs) -> known class or None."""
    triples = list(triples)
    iout = run_family(impl, family, [t[0] for t in triples])
    mout = run_family(model, model_family or family, [t[1] for t in triples])
    fam = ctx.cov["families"].setdefault(family, {"cases": 0, "agree": 0, "known": 0})
    rows = []
    for (ic, mc, rd), io, mo in zip(triples, iout, mout):
        iobs, oracle = split_oracle(io)
        ctx.note_case(family + " " + ic, nontrivial(rd, iobs) if nontrivial else True)
        fam["cases"] += 1
        rows.append((ic, iobs, mo, rd))
        agree = compare(iobs, mo) if compare else (iobs == mo)
        bad_oracle = oracle is not None and oracle != "ok"
        if agree and not bad_oracle:
            fam["agree"] += 1
            continue
        cls = classify(rd, iobs, mo) if classify else None
        if cls and ctx.known_hit(cls):
            fam["known"] += 1
            continue
        if mo.startswith("model-"):
            raise MachineryError(f"model runner failed on {family} {rd}: {mo}")
        if not agree:
            ctx.disagreements += 1
        if bad_oracle:
            ctx.oracle_failures += 1
        if len(ctx.violations) < 8:
            ctx.violation({
                "family": family, "case": ic, "model_case": mc, "case_readable": rd,
                "impl": iobs, "model": mo, "oracle": oracle,
                "what": ("the implementation's observation differs from the model's "
                         "(the model satisfies the property by the theorems of Props/%s.v)" % ctx.pid)
                        if not agree else "the property's oracle fails on the implementation",
            })
        else:
            ctx.violations.append("(not written)")
    return rows
