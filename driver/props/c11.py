"""C11 — source locations and line/column positions are correct."""
import json
from common import *

FF, VT, NEL, LS, PS = "\x0c", "\x0b", "\u0085", "\u2028", "\u2029"
ALPHA = ["a", "é", "🚀", "\n", "\r", FF, LS, " "]
SALTS = ["é", "中", "🚀", FF, VT, NEL, LS, PS, "é中🚀", "x" + FF + "y", "é" + LS + "中", NEL + NEL, "ab", ""]
SALTS_NL = SALTS + ["\r", "\r\n", "\n", "é\r\nx", "\r\r\n", "🚀\n"]

# § marks a place inside a comment / string / description where a salt goes; ¶ a place between tokens
DOCS = [
    '"desc §" type Query {¶ "fd §" f(a: Int = 1, s: String = "str §"): Int @deprecated(reason: "r §") # c §\n'
    ' g: [Query!]! }¶# top §\nquery Q($v: Int = 3) { f(a: $v, s: "x §") @skip(if: true) ...F ... on Query { g { f } } }¶'
    'fragment F on Query { al: f }',
    '"""block § more""" enum E { "v §" A B @deprecated }¶input I { "i §" x: Int = 1 y: [E] = [A, B] }¶union U = Query | T # §\n'
    'interface N { f: Int }¶scalar S @specifiedBy(url: "u§")¶type T implements N { f: Int }¶'
    'type Query { h(i: I = {x: 2, y: [A]}): E u: U n: N s: S }¶extend type Query { k: Int }¶schema { query: Query }',
    'directive @d("a §" x: Int = 1) repeatable on FIELD | QUERY¶type Query { f: Int }¶'
    'query A @d(x: 2) { f @d @d(x: 3) # §\n ... @d { f } }',
    # validation errors after multi-byte text on the same line
    'type Query { f(s: String): Int }¶{ f(s: "§") zz ...Missing }¶',
    '{ f(s: "§", t: $undefined) @nope } # §\nfragment Unused on Nowhere { x }',
    'type Query { f: Undefined "§" g: Int g: Int }¶type Query { h: Int }',
    # syntax errors
    '{ "§" f( }', 'type § Query { f: Int }', '{ f # §',
    '',
]


def u8(c):
    return len(c.encode("utf-8"))


# ---- the three known classes, as in Loc/LineCol.v (k_sep, k_col, k_eof)

def k_sep(cs, off):
    for c in cs:
        if off < u8(c):
            return False
        if c in (VT, FF, NEL, LS, PS):
            return True
        off -= u8(c)
    return False


def k_col(cs, off):
    acc, i = False, 0
    while i < len(cs):
        c = cs[i]
        if off == 0:
            return acc
        if off < u8(c):
            return True
        if c == "\n":
            off, acc, i = off - 1, False, i + 1
        elif c == "\r":
            if i + 1 < len(cs) and cs[i + 1] == "\n":
                if off == 1:
                    return acc
                off, acc, i = off - 2, False, i + 2
            else:
                off, acc, i = off - 1, False, i + 1
        else:
            off, acc, i = off - u8(c), acc or u8(c) > 1, i + 1
    return acc


def k_eof(cs, off):
    return off == sum(u8(c) for c in cs) and len(cs) > 0 and cs[-1] in ("\n", "\r")


def classes_at(s, off):
    """(sep, col, eof) for text s (a Python str) and byte offset off"""
    return k_sep(s, off), k_col(s, off), k_eof(s, off)


CLASS_NAMES = ("extra_separator_before_offset", "multibyte_before_offset_on_line", "end_of_text_after_terminator")


def salted(rng, doc, heavy):
    out = []
    for ch in doc:
        if ch == "§":
            out.append(rng.choice(SALTS_NL if rng.random() < 0.3 else SALTS) if heavy or rng.random() < 0.6 else "")
        elif ch == "¶":
            out.append(rng.choice(["\n", "\r\n", "\r", " ", "\n\n", ",", "\t", "\ufeff", " \n"]))
        elif ch == " " and rng.random() < 0.05:
            out.append(rng.choice(["\n", "\r\n", "\r", "  "]))
        else:
            out.append(ch)
    s = "".join(out)
    if rng.random() < 0.3:
        s += rng.choice(["\n", "\r", "\r\n", "# é", " "])
    return s


def run(ctx):
    props = check_props(ctx.pid)
    model = build_model()
    impl = build_impl()
    quick = ctx.tier == "quick"
    # --- texts
    maxlen = 4 if quick else 5
    short = list(all_strings(ALPHA, maxlen))
    fixed = ['"é中🚀" x', "#a" + FF + "b" + LS + "c" + NEL + "d\n x", "a\n", "a\r\n", "\r\n", "a\r", "é\n", "", "a", "é",
             "a\r\nb", "a\n\rb", "\r\r\n\n", "x" + VT + "y" + PS + "z", "🚀🚀\r\n🚀"]
    docs = []
    ndocs = 100 if quick else 1500
    for d in DOCS:
        docs.append(d.replace("§", "").replace("¶", " "))
        for k in range(ndocs):
            docs.append(salted(ctx.rng, d, heavy=(k % 2 == 0)))
    docs = sorted(set(docs))
    texts = fixed + short + docs
    seen, cases = set(), []
    for t in texts:
        h = hexs(t)
        if h not in seen:
            seen.add(h)
            cases.append(h)

    # --- (B) get_line_column at every offset vs the model of the code
    rows = ctx.correspond(impl, model, "c11_linecol", cases,
                          nontrivial=lambda c, o: True, describe=lambda c: repr(unhexs(c)))
    n_offsets = sum(o.count(",") + 1 for _, o, _ in rows)
    ctx.cov["families"]["c11_linecol"]["offsets"] = n_offsets
    ctx.cov["families"]["c11_linecol_vs_model"] = ctx.cov["families"].pop("c11_linecol")

    # --- (C) the same observations vs the specification; differences must lie in the known classes
    stats = {n: {"offsets_in_class": 0, "offsets_differing": 0} for n in CLASS_NAMES}
    stats["offsets_equal_to_spec"] = 0
    stats["offsets_differing_outside_classes"] = 0

    def split_spec(mo):
        vals, flags = [], []
        for x in mo.split(","):
            v, f = x.split("/")
            vals.append(v)
            flags.append(f)
        return vals, flags

    def compare(iobs, mo):
        return iobs.split(",") == split_spec(mo)[0]

    def classify(c, iobs, mo):
        s = unhexs(c)
        got = iobs.split(",")
        vals, flags = split_spec(mo)
        if len(got) != len(vals):
            return None
        needed = []
        for off, (g, v, f) in enumerate(zip(got, vals, flags)):
            if g == v:
                continue
            mine = classes_at(s, off)
            if "".join("1" if b else "0" for b in mine) != f:
                raise MachineryError(f"driver's C11 classes differ from the extracted ones at offset {off} of {c}: {mine} vs {f}")
            cls = [n for n, b in zip(CLASS_NAMES, mine) if b]
            if not cls:
                return None
            needed.append(cls[0])
        known = {k["class"] for k in ctx.known}
        if not needed or not set(needed) <= known:
            return None
        uniq = sorted(set(needed))
        for extra in uniq[1:]:
            ctx.known_hit(extra)
        return uniq[0]

    rows2 = ctx.correspond(impl, model, "c11_linecol", cases, classify=classify, compare=compare,
                           nontrivial=lambda c, o: True, describe=lambda c: repr(unhexs(c)),
                           model_family="c11_linecol_spec")
    ctx.cov["families"]["c11_linecol_vs_spec"] = ctx.cov["families"].pop("c11_linecol")
    for c, i, m in rows2:
        vals, flags = split_spec(m)
        for g, v, f in zip(i.split(","), vals, flags):
            if g == v:
                stats["offsets_equal_to_spec"] += 1
            elif f == "000":
                stats["offsets_differing_outside_classes"] += 1
            for n, b in zip(CLASS_NAMES, f):
                if b == "1" and v != "none":
                    stats[n]["offsets_in_class"] += 1
                    if g != v:
                        stats[n]["offsets_differing"] += 1
    ctx.cov["spec_comparison"] = stats

    # --- get_line_column_range on all pairs of offsets of very short texts, sampled pairs of longer ones
    rcases = []
    for t in all_strings(ALPHA, 2):
        n = len(t.encode("utf-8"))
        for a in range(n + 2):
            for b in range(n + 2):
                rcases.append(f"{hexs(t)} {a} {b}")
    for t in ctx.rng.sample(short, 300) + ctx.rng.sample(docs, min(len(docs), 100)):
        n = len(t.encode("utf-8"))
        for _ in range(8):
            a, b = ctx.rng.randint(0, n + 1), ctx.rng.randint(0, n + 1)
            rcases.append(f"{hexs(t)} {a} {b}")
    rcases = sorted(set(rcases))
    ctx.correspond(impl, model, "c11_range", rcases, nontrivial=lambda c, o: o != "none")

    # --- spans of every node and name, diagnostics: oracle on the implementation
    scases = [hexs(t) for t in docs + fixed]
    scases = sorted(set(scases))
    totals = {"nodes": 0, "names": 0, "diags": 0}

    def cmp_spans(iobs, mo):
        if not iobs.startswith("spans "):
            return False
        for kv in iobs.split(" ")[1:]:
            k, v = kv.split("=")
            totals[k] += int(v)
        return True

    ctx.correspond(impl, model, "c11_spans", scases, compare=cmp_spans,
                   nontrivial=lambda c, o: True, describe=lambda c: repr(unhexs(c)))
    ctx.cov["families"]["c11_spans"].update(totals)
    for c, i, m in rows2[:2] + rows2[len(rows2) // 2: len(rows2) // 2 + 2] + rows2[-2:]:
        ctx.sample({"family": "c11_linecol", "text": unhexs(c)[:80], "impl": i[:120], "spec": m[:160]}, limit=6)
    ctx.cov["rule"] = (
        f"texts: every string of length <= {maxlen} over {[a.encode('unicode_escape').decode() for a in ALPHA]} (0- and 1-byte files included), "
        f"{len(DOCS)} document templates x {ndocs} saltings of comments/strings/descriptions with é 中 🚀 FF VT U+0085 U+2028 U+2029 "
        "lone CR, CRLF and varied token separators, hand-written boundary texts.  For each text get_line_column at EVERY byte offset "
        "0..=len+1 is compared with the model of the code (must be equal) and with the specification (differences must lie in the "
        "three known classes).  get_line_column_range on all offset pairs of texts of length <= 2 plus sampled pairs.  For each "
        "document every node/name location of ast::Document, Schema and ExecutableDocument and every diagnostic is checked by the "
        "oracle (in file, on char boundaries, name text = slice, all line_column paths agree, JSON location = conversion of the span).")
    ctx.cov["exhaustive"] = f"short strings up to length {maxlen}, every offset"
    ctx.assumptions += [
        "the line table of ariadne 0.6.0 (Source::from, get_byte_line) is modelled from its source; binary_search_by_key is modelled "
        "as the last line whose start is <= the offset (keys strictly increasing)",
        "spans (name location = name text, nodes inside the file) are checked on the implementation only: the parser model is not part of this property's model",
        "the rendered text report (ariadne's own `path:line:col` header) is not compared",
    ]
    return ctx.finish(props)


def replay(ctx, path):
    r = json.load(open(path))
    model = build_model()
    impl = build_impl()
    fam, case = r["family"], r["case"]
    print("case :", r.get("case_readable", case))
    print("impl :", run_family(impl, fam, [case])[0])
    print("model:", run_family(model, fam, [case])[0])
    if fam == "c11_linecol":
        print("spec :", run_family(model, "c11_linecol_spec", [case])[0])
    return 0
