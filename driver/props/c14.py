"""C14 — schema validation agrees with the specification.

Two-stage tie: (1) the real builder builds the schema and dumps it (family c14_dump: number of parse/build
errors + the Schema, built-ins included); (2) `Schema::parse_and_validate(..).is_ok()` is compared with the
verdict of the executable specification Schema/Valid.v (no build errors && sv_schema_valid) on that dump.
On disagreement the replay names the specification rules that fail and the crate's diagnostic kinds."""
import json
import re
from collections import Counter
from common import *
from props import c14_gen as G

RULES = ["root_query", "root_object", "root_distinct", "reserved_names", "fields_nonempty", "field_output_types",
         "arg_input_types", "arg_unique", "implements_targets", "no_self_implement", "transitive_interfaces",
         "interface_fields_present", "interface_field_types", "interface_field_args", "interface_extra_args",
         "union_nonempty", "union_members_object", "enum_nonempty", "enum_value_names", "input_nonempty",
         "input_field_types", "input_no_nonnull_cycle", "dirdef_arg_types", "dirdef_no_self_ref",
         "builtin_redefinition", "dir_defined", "dir_location", "dir_unique", "dir_known_args", "dir_arg_unique",
         "dir_required_args", "dir_arg_input_fields_unique", "dir_arg_values", "default_values"]


def gen_cases(ctx):
    """list of (tag, sdl)"""
    rng = ctx.rng
    cases = []
    cdir = VERIF / "corpus" / "C14"
    if cdir.exists():
        for f in sorted(cdir.glob("*.graphql")):
            cases.append(("corpus/" + f.name, f.read_text()))
    cases += G.handwritten()
    cases += G.deep_cases()
    cases += G.value_matrix() + G.covariance_matrix() + G.args_matrix() + G.transitive_matrix()
    bases = [("rich", G.base_rich()), ("implicit", G.base_implicit()), ("redef", G.base_redef())]
    nrand = 10 if ctx.tier == "quick" else 120
    for i in range(nrand):
        bases.append(("rand%d" % i, G.base_random(rng, i)))
    for bname, b in bases:
        cases.append((bname + "/base", G.sdl(b)))
        fixed = not bname.startswith("rand")
        ms = G.mutants(b, rng, per=3 if fixed else 2)
        if not fixed:
            # the cycle families are run in full on the fixed bases; a sample here
            cyc = [m for m in ms if m[0].startswith(("input_no_nonnull_cycle/len", "dirdef_no_self_ref/"))]
            keep = set(id(m) for m in rng.sample(cyc, min(8, len(cyc))))
            ms = [m for m in ms if not m[0].startswith(("input_no_nonnull_cycle/len", "dirdef_no_self_ref/"))
                  or id(m) in keep]
        for mname, m in ms:
            cases.append((bname + "/" + mname, G.sdl(m)))
    # distinct by text, first tag wins
    seen, out = set(), []
    for tag, src in cases:
        if src in seen:
            continue
        seen.add(src)
        out.append((tag, src))
    return out


def set_builtins(impl):
    """the pristine built-in definitions, written once for the model runner (see fam_c14.ml)"""
    out = run_family(impl, "c14_builtins", ["-"])[0]
    if not out.startswith("Sch("):
        raise MachineryError("c14_builtins failed: " + out[:200])
    path = BUILD / "c14_builtins.txt"
    if not path.exists() or path.read_text() != out + "\n":
        path.write_text(out + "\n")
    os.environ["C14_BUILTINS"] = str(path)


def stage1(impl, srcs):
    """source texts -> second-stage case lines `<hex> <nbuild> <P|F> <dump>` and the build classes"""
    set_builtins(impl)
    hx = [hexs(s) for s in srcs]
    outs = run_family(impl, "c14_dump", hx)
    # the AST of every source (real parser): the model re-computes the BUILD errors itself with the literal model of
    # SchemaBuilder (Schema/Build.v), so that a build error the real builder fails to report is a disagreement
    from props import sch_util
    sch_util.setup_builtin(impl)
    asts = sch_util.ast_stage(impl, srcs)
    lines, classes = [], []
    for h, o, a in zip(hx, outs, asts):
        parts = o.split(" ", 2)
        if len(parts) != 3 or not parts[0].isdigit() or parts[2][:1] not in ("P", "F"):
            raise MachineryError(f"c14_dump failed on {unhexs(h)!r}: {o[:200]}")
        lines.append(f"{h} {parts[0]} {parts[2]} {a if a is not None else '-'}")
        classes.append(parts[1])
    return lines, classes


def verdict(obs):
    return obs.split(" ", 1)[0]


def failed_rules(model_obs):
    if model_obs.startswith("invalid rules="):
        return model_obs.split(" ")[1][len("rules="):].split(",")
    return []


def classify(case, impl_obs, model_obs):
    """known-finding classes are decided by the model (Valid.v, sv_known_*): the class is part of its line"""
    m = re.search(r" class=(\S+)", model_obs)
    if m and verdict(impl_obs) == "valid":
        return m.group(1)
    return None


def describe(case):
    return unhexs(case.split(" ", 1)[0])


def run(ctx):
    props = check_props(ctx.pid)
    model = build_model()
    impl = build_impl()
    tagged = gen_cases(ctx)
    lines, classes = stage1(impl, [s for _, s in tagged])
    tag_of = {l: t for l, (t, _) in zip(lines, tagged)}
    limit_hits = [0]

    def compare(i, m):
        if "DeeplyNestedType" in i:
            # apollo's internal recursion limit of 32: not a specification rule, outside the generator's range
            limit_hits[0] += 1
            return True
        return verdict(i) == verdict(m) and verdict(i) in ("valid", "invalid")

    rows = ctx.correspond(impl, model, "c14_validate", lines, compare=compare, describe=describe,
                          classify=classify, nontrivial=lambda c, o: True)
    # ---- the literal models of the two cycle searches (Schema/Cycles.v) against the diagnostics of the code
    crows = ctx.correspond(impl, model, "c14_cycles", lines, describe=describe, nontrivial=lambda c, o: "1" in o)
    cf = ctx.cov["families"]["c14_cycles"]
    for key in ("ri=1", "rd=1", "deep=1"):
        cf[key] = sum(1 for _, i, _ in crows if key in i)
    # ---- evidence
    fam = ctx.cov["families"]["c14_validate"]
    fam["accepted"] = sum(1 for _, i, _ in rows if verdict(i) == "valid")
    fam["rejected"] = sum(1 for _, i, _ in rows if verdict(i) == "invalid")
    fam["discarded_recursion_limit"] = limit_hits[0]
    fam["with_build_errors"] = sum(1 for c in classes if c != "-")
    per_rule = {r: {"violated_in_isolation": 0, "violated_with_others": 0, "satisfied": 0} for r in RULES}
    by_mutator = Counter()
    bases_invalid = []
    for c, i, m in rows:
        fr = [r for r in failed_rules(m) if r != "build_errors"]
        has_build = "build_errors" in failed_rules(m)
        for r in RULES:
            if r in fr:
                per_rule[r]["violated_in_isolation" if (len(fr) == 1 and not has_build) else "violated_with_others"] += 1
            else:
                per_rule[r]["satisfied"] += 1
        tag = tag_of[c]
        parts = tag.split("/")
        by_mutator[parts[1] if len(parts) > 1 and not tag.startswith(("hand/", "matrix/", "corpus/")) else parts[0] + "/" + parts[1]] += 1
        if tag.endswith("/base") and verdict(i) != "valid":
            bases_invalid.append(tag)
    fam["per_rule"] = per_rule
    fam["cases_by_mutator"] = dict(sorted(by_mutator.items()))
    fam["bases_not_accepted"] = bases_invalid
    never = [r for r in RULES if per_rule[r]["violated_in_isolation"] == 0
             and r not in ("default_values", "builtin_redefinition", "enum_value_names")]
    fam["rules_never_violated_in_isolation"] = never
    # ---- the parameters are load-bearing: the same cases under the other setting of each switch
    pl = [c for c in lines if tag_of[c].split("/")[1] in ("default_values", "builtin_redefinition")
          or "/dir_arg_values/" in tag_of[c] or tag_of[c].startswith("matrix/value/")]
    flips = {}
    for flags, name in (("ttt", "check_default_values=true"), ("fft", "builtin_redefinable_once=false"),
                        ("ftf", "typecheck_schema_directive_arguments=false")):
        a = run_family(model, "c14_validate_params", ["apollo " + c for c in pl])
        b = run_family(model, "c14_validate_params", [flags + " " + c for c in pl])
        flips[name] = sum(1 for x, y in zip(a, b) if verdict(x) != verdict(y))
    fam["verdicts_changed_by_parameter"] = flips
    for c, i, m in rows:
        if verdict(i) == "valid":
            ctx.sample({"tag": tag_of[c], "impl": i, "model": m}, limit=2)
        elif failed_rules(m) and len(failed_rules(m)) == 1:
            ctx.sample({"tag": tag_of[c], "impl": i, "model": m}, limit=8)
    ctx.cov["rule"] = (
        "schemas valid by construction (3 fixed bases covering every type kind, interfaces implementing interfaces, "
        "unions, input objects with nullable/list cycles, directives applied at every type-system location, custom "
        "scalars, deprecated, explicit/implicit schema definitions, extensions; plus seeded random valid schemas), "
        "each rule-directed mutator applied to each base where it applies, and fixed matrices (directive argument "
        "type x constant value, interface field type x implementing field type, interface arguments x implementing "
        "arguments, transitive implements declarations, input-object chains of length 1-3 with every link type, "
        "directive self-reference shapes) and hand-written corner cases.  Observation compared: valid/invalid only. "
        "per_rule counts how many cases violate each specification rule alone / with others / satisfy it (by the model's "
        "rule vector).  Distinct by source text; every case is non-trivial.")
    ctx.cov["exhaustive"] = False
    ctx.assumptions += [
        "the specification side is an executable transcription of October 2021 section 3 (Schema/Valid.v); its agreement with the code is tested here, not proved (strength: partial by construction)",
        "parse errors and build-time collisions make both sides invalid by definition (the model receives their count from the real builder); building is C12/C13's subject",
        "the built-in directive and introspection definitions are taken from the built schema (apollo's built_in_types.graphql), not from the specification text",
        "schemas that hit apollo's internal recursion limit of 32 (DeeplyNestedType) are outside the generator's range; their number is reported as discarded_recursion_limit",
    ]
    return ctx.finish(props)


def replay(ctx, path):
    r = json.load(open(path))
    model = build_model()
    impl = build_impl()
    src = describe(r["case"])
    lines, classes = stage1(impl, [src])
    print("schema:\n" + src)
    print("build errors:", classes[0])
    print("impl :", run_family(impl, "c14_validate", lines)[0])
    print("model:", run_family(model, "c14_validate", lines)[0])
    return 0
