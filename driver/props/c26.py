"""C26 — execution follows the GraphQL execution algorithm.

Two-stage tie (see run_util.py): schema / document / variables as text, a resolver world as a finite table
(object id, field) -> behaviour; `exec_sync` of the harness drives resolvers::Execution::execute_sync with
resolvers that interpret the table, `exec_sync` of the model runs ExecTop.execute_request.
Observation: data (keys in order), errors as (class, path), resolver call log with coerced arguments.
Oracle: the reference executor (Run/RefExecute.v, family exec_ref) on the same case."""
import itertools
import json
import re
from common import *
from props.run_util import *

# ---------------------------------------------------------------- the schema, as data and as SDL
# type name -> (kind, interfaces, {field: (type text, args text)})
TYPES = {
    "Query": ("object", [], {
        "node": ("Node", ""), "a": ("A", ""), "an": ("A!", ""), "u": ("U", ""), "us": ("[U]", ""),
        "nodes": ("[Node!]!", ""), "mat": ("[[Int!]]", ""), "ints": ("[Int!]", ""), "str": ("String!", ""),
        "any": ("Any", "(i: In, l: [Int], r: Int! = 2, j: Any, c: Color = RED, ll: [[Int!]])"), "opt": ("Int", "(v: Int)"), "col": ("Color", ""),
        "flt": ("Float", ""), "ident": ("ID", ""), "named": ("Named", ""),
        "req": ("Int!", "(r: Int! = 2, i: In)"), "reqa": ("A!", "(r: Int! = 2)"),
        "anyreq": ("Any!", ""), "anys": ("[Any!]", "")}),
    "Mutation": ("object", [], {"m1": ("Int", "(x: Int)"), "m2": ("A", ""), "m3": ("Int!", ""), "m4": ("[Int]", "")}),
    "A": ("object", ["Node", "Named"], {
        "id": ("ID!", ""), "name": ("String", ""), "n": ("Int!", ""), "b": ("B", ""), "bs": ("[B!]", ""),
        "m": ("[[Int!]]", ""), "u": ("U", ""), "e": ("Color!", ""), "any": ("Any", "(i: In! = {x: 5}, s: String)"),
        "stamp": ("Any!", "")}),
    "B": ("object", ["Node"], {"id": ("ID!", ""), "name": ("String", ""), "a": ("A!", ""), "w": ("Float", "")}),
    "C": ("object", [], {"c": ("Int", ""), "name": ("String", "")}),
    "Node": ("interface", [], {"id": ("ID!", ""), "name": ("String", "")}),
    "Named": ("interface", [], {"name": ("String", "")}),
    "U": ("union", ["A", "C"], {}),
}
EXTRA_SDL = "enum Color { RED GREEN }\nscalar Any\ninput In { x: Int = 1, y: [Int!] }\n"


def sdl_of(types):
    out = [EXTRA_SDL]
    for n, (k, ifs, fields) in types.items():
        if k == "union":
            out.append(f"union {n} = {' | '.join(ifs)}\n")
            continue
        impl = f" implements {' & '.join(ifs)}" if ifs else ""
        body = " ".join(f"{f}{a}: {t}" for f, (t, a) in fields.items())
        out.append(f"{'type' if k == 'object' else 'interface'} {n}{impl} {{ {body} }}\n")
    return "".join(out)


SCHEMA = sdl_of(TYPES)
OBJ_ID = {"Query": 0, "Mutation": 0, "A": 1, "B": 2, "C": 3}

# covariant field types: an object type refines the type of an interface field (formerly a known finding:
# values were completed against the interface's field type; repaired in execute_field)
COV_TYPES = {
    "Query": ("object", [], {"i": ("I", ""), "is": ("[I!]", ""), "t": ("T", "")}),
    "I": ("interface", [], {"f": ("Int", ""), "g": ("I", "")}),
    "T": ("object", ["I"], {"f": ("Int!", ""), "g": ("T!", "")}),
    "S": ("object", ["I"], {"f": ("Int", ""), "g": ("I", "")}),
}
COV_SCHEMA = sdl_of(COV_TYPES)
COV_OBJ_ID = {"Query": 0, "T": 1, "S": 2}


def named(t):
    return t.replace("[", "").replace("]", "").replace("!", "")


def concrete(types, n):
    """object types a value of declared type n may legitimately have"""
    k = types.get(n, ("leaf",))[0]
    if k == "object":
        return [n]
    if k == "interface":
        return [x for x, (kx, ifs, _) in types.items() if kx == "object" and n in ifs]
    if k == "union":
        return list(types[n][1])
    return []


# ---------------------------------------------------------------- behaviours per declared type
LEAVES = {
    "Int": ['1', '"s"', '2147483648', '1.0'], "Float": ['1.5', '1', '"s"'], "String": ['"s"', '1'],
    "Boolean": ['true', '0'], "ID": ['"i"', '7', '1.5'], "Color": ['"RED"', '"BLUE"', '1'],
    "Any": ['{"k":[1]}', '[1,"x"]'],
}


def alphabet(types, ids, t, rich):
    """behaviours for a field of declared type text t"""
    if t.endswith("!"):
        t = t[:-1]
    if t.startswith("["):
        inner = t[1:-1]
        items = alphabet(types, ids, inner, False)
        good = items[0]
        out = [("list", [good]), ("list", []), ("leaf", "null"), "err", ("leaf", "1")]
        for it in items[1:]:
            out.append(("list", [good, it]))
        if rich:
            out += [("list", [items[1], good]), ("obj", 1, "A"), "skip", ("list", [good, "skip", good])]
        return out
    n = t
    if n in types:
        cs = concrete(types, n)
        out = [("obj", ids[c], c) for c in cs]
        wrong = [c for c in ids if c not in cs and types[c][0] == "object" and ids[c] != 0][:1]
        out += [("leaf", "null"), "err"] + [("obj", ids[c], c) for c in wrong] + [("obj", 9, "Zz")]
        if rich:
            out += [("leaf", "1"), ("list", [("obj", ids[cs[0]], cs[0])]), "skip"]
        return out
    vals = LEAVES.get(n, ['1'])
    out = [("leaf", v) for v in vals] + [("leaf", "null"), "err"]
    if n == "Any":
        out.append("echo")
    if rich:
        out += [("list", [("leaf", vals[0])]), ("obj", 1, "A"), "skip"]
    return out


# ---------------------------------------------------------------- documents
def parse_sites(types, ids, doc, root):
    """(object type, field) pairs a document can call, by a light structural walk of the text
    (fields are found by name in every object type the position may have)"""
    frags = dict(re.findall(r"fragment (\w+) on \w+ (\{.*?\})(?= fragment|$)", doc, re.S))
    body = doc[doc.index("{"):]
    body = body.split(" fragment ")[0]
    toks = re.findall(r"\.\.\.|[A-Za-z_]\w*|[{}()@:$\[\]!=,]|\"[^\"]*\"|-?\d+(?:\.\d+)?", body)
    sites = set()

    def walk(toks, pos, otypes, seen):
        # toks[pos] == '{'
        pos += 1
        while toks[pos] != "}":
            t = toks[pos]
            if t == "...":
                pos += 1
                if toks[pos] == "on":
                    cond = toks[pos + 1]
                    pos += 2
                    sub = [o for o in otypes if o == cond or cond in types[o][1] or (types.get(cond, ("",))[0] == "union" and o in types[cond][1])]
                    pos = skip_dirs(toks, pos)
                    pos = walk(toks, pos, sub, seen)
                elif toks[pos] in ("@", "{"):
                    pos = skip_dirs(toks, pos)
                    pos = walk(toks, pos, otypes, seen)
                else:
                    name = toks[pos]
                    pos += 1
                    pos = skip_dirs(toks, pos)
                    if name in frags and name not in seen:
                        ft = re.findall(r"\.\.\.|[A-Za-z_]\w*|[{}()@:$\[\]!=,]|\"[^\"]*\"|-?\d+(?:\.\d+)?", frags[name])
                        walk(ft, 0, otypes, seen | {name})
                continue
            # field, maybe aliased
            name = t
            pos += 1
            if toks[pos] == ":":
                name = toks[pos + 1]
                pos += 2
            if toks[pos] == "(":
                depth = 0
                while True:
                    if toks[pos] in "([{":
                        depth += 1
                    if toks[pos] in ")]}":
                        depth -= 1
                    pos += 1
                    if depth == 0:
                        break
            pos = skip_dirs(toks, pos)
            child = set()
            for o in otypes:
                if name in types[o][2]:
                    sites.add((o, name))
                    child |= set(concrete(types, named(types[o][2][name][0])))
            if toks[pos] == "{":
                pos = walk(toks, pos, sorted(child), seen)
        return pos + 1

    def skip_dirs(toks, pos):
        while toks[pos] == "@":
            pos += 2
            if toks[pos] == "(":
                while toks[pos] != ")":
                    pos += 1
                pos += 1
        return pos

    walk(toks, 0, [root], frozenset())
    return sorted(sites)


DOCS = [
    # (document, [variables JSON], root type)
    ("{ str }", ["{}"]),
    # non-null custom scalar positions: a null there is a field error that nulls the parent (sync and async alike)
    ("{ anyreq }", ["{}"]),
    ("{ a { stamp n } str }", ["{}"]),
    ("{ anys ints }", ["{}"]),
    ("{ an { stamp } }", ["{}"]),
    ("{ a { n } }", ["{}"]),
    ("{ an { n } str }", ["{}"]),
    ("{ a { n e } col }", ["{}"]),
    ("{ flt ident }", ["{}"]),
    ("{ node { id name } }", ["{}"]),
    ("{ node { ... on A { n } ... on B { w } __typename } }", ["{}"]),
    ("{ named { name ... on A { e } } }", ["{}"]),
    ("{ u { __typename ... on A { n } ... on C { c } } }", ["{}"]),
    ("{ u { ... on Node { id } ... on Named { name } } }", ["{}"]),
    ("{ us { ... on A { id } ... on C { c } } }", ["{}"]),
    ("{ nodes { id } }", ["{}"]),
    ("{ nodes { ... on Named { name } __typename } }", ["{}"]),
    ("{ mat }", ["{}"]),
    ("{ ints str }", ["{}"]),
    ("{ a { m } }", ["{}"]),
    ("{ a { bs { id } } }", ["{}"]),
    ("{ a { bs { a { n } } } }", ["{}"]),
    ("{ a { b { a { n } } } }", ["{}"]),
    ("{ a { b { w } n } }", ["{}"]),
    ("query($s: Boolean!, $i: Boolean = false) { str @skip(if: $s) a @include(if: $i) { n } ints @skip(if: false) @include(if: true) }",
     ['{"s":true}', '{"s":false}', '{"s":false,"i":true}', '{"s":true,"i":null}']),
    ("query($s: Boolean = true) { str @skip(if: $s) @include(if: $s) opt }", ['{}', '{"s":true}', '{"s":false}', '{"s":null}']),
    ("{ a { n } a { e } }", ["{}"]),
    ("{ x: a { n } y: a { n } }", ["{}"]),
    ("{ a { n } ...F } fragment F on Query { a { e b { w } } }", ["{}"]),
    ("{ ...F str ...F } fragment F on Query { str ...G } fragment G on Query { ints }", ["{}"]),
    ("{ node { ...NF } } fragment NF on Node { id ... on A { n } }", ["{}"]),
    ("{ node { ...AF ...BF } } fragment AF on A { n name } fragment BF on B { name w }", ["{}"]),
    ("{ any(i: {y: 1}, l: 2) }", ["{}"]),
    ("{ any(i: {x: null}, l: [1, null], r: 3) x: any(i: null) }", ["{}"]),
    ("query($v: Int, $r: Int!, $i: In) { any(l: [$v], r: $r, i: $i) opt(v: $v) }",
     ['{"r":1}', '{"r":1,"v":2,"i":{"y":3}}', '{"r":1,"v":null,"i":null}', '{"v":1}', '{"r":"x"}']),
    ("query($v: Int = 4, $l: [Int] = [1]) { any(l: $l) opt(v: $v) }", ['{}', '{"v":null,"l":null}', '{"l":5}']),
    ("{ a { any any2: any(s: \"t\", i: {y: [1]}) } }", ["{}"]),
    ("query($v: Int) { any(j: {a: $v, b: [1, 2.5, \"s\", true, null, E]}, c: GREEN) }", ['{}', '{"v":3}']),
    ("{ any(j: [1, {k: 2}], c: null, ll: 1) x: any(ll: [[1], [2, 3]]) y: any(j: 99999999999, l: []) }", ["{}"]),
    # variables nested in list / object literals given for a custom scalar (formerly a known finding; repaired)
    ("query($v: Int, $s: String = \"d\", $a: Any) { any(j: [$a, [$a, {k: [$v]}], {a: {b: $s}}]) x: any(j: {a: $v}, l: [$v]) }",
     ['{}', '{"v":3,"a":{"z":[1]}}', '{"v":null,"s":"t","a":null}']),
    ("query($v: Int) { str req(r: $v) }", ['{}', '{"v":null}', '{"v":1}']),
    ("query($v: Int, $i: In) { a { n } reqa(r: $v) { n } x: req(i: $i) }", ['{}', '{"v":null,"i":{"x":null}}', '{"v":1,"i":null}']),
    ("{ __typename a { __typename } }", ["{}"]),
    ("{ a { u { ... on A { u { ... on C { c } } } ... on C { c } } } }", ["{}"]),
    ("{ a { ... @skip(if: true) { n } ... @include(if: true) { e } } }", ["{}"]),
    ("{ a { ...AF @skip(if: true) ...AF ...AF } } fragment AF on A { n }", ["{}"]),
    ("query($c: Boolean!) { a { ... on Node @include(if: $c) { id } name } }", ['{"c":true}', '{"c":false}']),
    ("mutation { m1(x: 1) m2 { n } m3 }", ["{}"], "Mutation"),
    ("mutation { b: m3 a: m1 m2 { id } m4 }", ["{}"], "Mutation"),
    ("mutation($x: Int) { m1(x: $x) z: m1 }", ['{}', '{"x":3}'], "Mutation"),
    ("{ __schema { queryType { name } } }", ["{}"]),
    ("{ __type(name: \"A\") { name } str }", ["{}"]),
]

COV_DOCS = [
    ("{ i { f } }", ["{}"]),
    ("{ i { g { f } } t { f } }", ["{}"]),
    ("{ is { f } }", ["{}"]),
    ("{ i { ... on T { f } } }", ["{}"]),
    ("{ i { g { g { f } } f } is { g { f } } }", ["{}"]),
    ("{ i { ...F g { ...F } } } fragment F on I { f g { f } }", ["{}"]),
]


ARGS = {("Query", "any"): ["", "(l: 2)", "(i: {y: [1]}, r: 7)", "(l: [$v, 1])", "(i: null, l: null)"],
        ("Query", "opt"): ["", "(v: 3)", "(v: $v)"], ("Query", "req"): ["", "(r: $v)", "(r: 1, i: {y: 2})"],
        ("Query", "reqa"): ["", "(r: $v)"], ("Mutation", "m1"): ["", "(x: 2)", "(x: $v)"],
        ("A", "any"): ["", "(s: \"t\")", "(i: {x: $v})"]}


def random_doc(rng, types, root):
    """a structured random document over `types` (valid most of the time; validation filters the rest)"""
    frags = []

    def dirs():
        r = rng.random()
        if r < 0.75:
            return ""
        return rng.choice([" @skip(if: false)", " @skip(if: true)", " @include(if: true)", " @include(if: false)",
                           " @skip(if: $b)", " @include(if: $b)", " @skip(if: $b) @include(if: $b)"])

    def selset(tn, depth):
        kind, ifs, fields = types[tn]
        items, used = [], set()
        cands = list(fields) if kind != "union" else []
        n = rng.randint(1, 3)
        for _ in range(n):
            r = rng.random()
            if cands and r < 0.6:
                f = rng.choice(cands)
                ftype = named(fields[f][0])
                if ftype in types and depth <= 0:
                    continue
                alias = ""
                key = f
                if rng.random() < 0.15:
                    key = f + "2"
                    alias = key + ": "
                if key in used:
                    continue
                used.add(key)
                args = rng.choice(ARGS.get((tn, f), [""]))
                sub = " " + selset(ftype, depth - 1) if ftype in types else ""
                items.append(f"{alias}{f}{args}{dirs()}{sub}")
            elif r < 0.7:
                if "__typename" not in used:
                    used.add("__typename")
                    items.append("__typename")
            elif r < 0.9 and depth > 0:
                cs = concrete(types, tn) + [i for c in concrete(types, tn) for i in types[c][1]] + ([tn] if kind != "union" else [])
                cond = rng.choice(sorted(set(cs)))
                inner = selset(cond, depth - 1)
                items.append(f"... on {cond}{dirs()} {inner}" if rng.random() < 0.8 else f"...{dirs() or ' @include(if: true)'} {selset(tn, depth - 1)}" if kind != "union" else f"... on {cond} {inner}")
            elif depth > 0 and len(frags) < 2 and kind != "union":
                name = f"F{len(frags)}"
                frags.append(None)
                body = selset(tn, depth - 1)
                frags[int(name[1:])] = f"fragment {name} on {tn} {body}"
                items.append(f"...{name}{dirs()}")
        if not items:
            items.append("__typename")
        return "{ " + " ".join(items) + " }"

    body = selset(root, 3)
    text = body + "".join(" " + f for f in frags if f)
    decl = []
    if "$b" in text:
        decl.append("$b: Boolean!")
    if "$v" in text:
        decl.append("$v: Int")
    op = "mutation" if root == "Mutation" else "query"
    head = f"{op}({', '.join(decl)}) " if decl else ("mutation " if root == "Mutation" else "")
    varss = ['{"b":true,"v":5}', '{"b":false}'] if decl else ["{}"]
    return head + text, varss


def worlds_for(ctx, types, ids, doc, root, limit, nrandom):
    sites = parse_sites(types, ids, doc, root)
    alphas = [alphabet(types, ids, types[o][2][f][0], False) for o, f in sites]
    total = 1
    for a in alphas:
        total *= len(a)
    out = []
    if total <= limit:
        for combo in itertools.product(*alphas):
            out.append([(ids[o], f, b) for (o, f), b in zip(sites, combo)])
        return out, True, len(sites)
    rich = [alphabet(types, ids, types[o][2][f][0], True) for o, f in sites]
    base = [a[0] for a in alphas]
    out.append([(ids[o], f, b) for (o, f), b in zip(sites, base)])
    for i, a in enumerate(rich):          # one site varies through its rich alphabet
        for b in a[1:]:
            combo = list(base)
            combo[i] = b
            out.append([(ids[o], f, x) for (o, f), x in zip(sites, combo)])
    for _ in range(nrandom):
        combo = [ctx.rng.choice(a) for a in rich]
        out.append([(ids[o], f, b) for (o, f), b in zip(sites, combo)])
    return out, False, len(sites)


def gen_cases(ctx):
    limit, nrandom = (300, 80) if ctx.tier == "quick" else (3000, 400)
    cases, stats = [], {"documents": 0, "exhaustive_documents": 0, "max_sites": 0, "limit": limit}
    for schema, types, ids, docs in ((SCHEMA, TYPES, OBJ_ID, DOCS), (COV_SCHEMA, COV_TYPES, COV_OBJ_ID, COV_DOCS)):
        for entry in docs:
            doc, varss = entry[0], entry[1]
            root = entry[2] if len(entry) > 2 else "Query"
            ws, exhaustive, nsites = worlds_for(ctx, types, ids, doc, root, limit, nrandom)
            stats["documents"] += 1
            stats["exhaustive_documents"] += 1 if exhaustive else 0
            stats["max_sites"] = max(stats["max_sites"], nsites)
            for v in varss:
                for w in ws:
                    cases.append((schema, doc, v, w))
    # structured random documents
    nrand_docs = 60 if ctx.tier == "quick" else 300
    seen = set()
    for i in range(nrand_docs):
        root = "Mutation" if i % 7 == 0 else "Query"
        doc, varss = random_doc(ctx.rng, TYPES, root)
        if doc in seen:
            continue
        seen.add(doc)
        try:
            ws, exhaustive, nsites = worlds_for(ctx, TYPES, OBJ_ID, doc, root, limit // 4, nrandom // 4)
        except Exception:
            continue       # the light site walker does not understand the text: skip the document
        stats["documents"] += 1
        stats["random_documents"] = stats.get("random_documents", 0) + 1
        stats["max_sites"] = max(stats["max_sites"], nsites)
        for v in varss:
            for w in ws:
                cases.append((SCHEMA, doc, v, w))
    return cases, stats


def oracle_ref(ctx, model, triples, rows, family="exec_sync", ref=None):
    """(C): the implementation's response against the reference executor (Run/RefExecute.v) on the same case"""
    mc_of = {ic: mc for ic, mc, _ in triples}
    if ref is None:
        ref = run_family(model, "exec_ref", [mc_of[r[0]] for r in rows])
    fam = ctx.cov["families"].setdefault("exec_ref", {"cases": 0, "agree": 0})
    for (ic, iobs, mo, rd), robs in zip(rows, ref):
        fam["cases"] += 1
        if robs.startswith("model-"):
            raise MachineryError(f"reference executor failed on {rd}: {robs}")
        bug = "E(b," in iobs       # a SuspectedValidationBug surfaced although the document is valid
        if iobs.split(" log=")[0] == robs and not bug:
            fam["agree"] += 1
            continue
        ctx.oracle_failures += 1
        if len(ctx.violations) < 8:
            ctx.violation({"family": family, "case": ic, "model_case": mc_of[ic], "case_readable": rd, "impl": iobs,
                           "reference": robs, "what": "execution of a valid document reported a suspected validation bug"
                           if bug else "the response differs from the reference executor's "
                           "(spec section 6 with apollo-compiler's documented choices)"})
        else:
            ctx.violations.append("(not written)")


def run(ctx):
    props = check_props(ctx.pid)
    model = build_model()
    impl = build_impl()
    cases, stats = gen_cases(ctx)
    limit = stats["limit"]
    triples, skipped, invalid_pairs = exec_triples(impl, cases)
    ref = run_family(model, "exec_ref", [t[1] for t in triples])
    rows = correspond_pairs(ctx, impl, model, "exec_sync", triples, nontrivial=lambda rd, o: True,
                            classify=lambda rd, i, m: None)     # no known class
    oracle_ref(ctx, model, triples, rows, ref=ref)
    # the decidable hypotheses of C26_eq_reference_decidable, evaluated by the extracted predicates on every distinct
    # (schema, document) of this run: how much of the tested population the theorem speaks about
    sd_of = {}
    for t in triples:
        sd_of.setdefault(" ".join(t[1].split(" ")[:2]), t[1])
    hyps = run_family(model, "exec_hyps", list(sd_of.values()))
    hfam = ctx.cov["families"].setdefault("exec_hyps", {"schema_document_pairs": 0,
                                                        "theorem_hypotheses_hold": 0, "fail_samples": []})
    for mc, h in zip(sd_of.values(), hyps):
        if h.startswith("model-"):
            raise MachineryError(f"exec_hyps failed: {h}")
        hfam["schema_document_pairs"] += 1
        if h.startswith("wf=1 alias=1 acyclic=1"):
            hfam["theorem_hypotheses_hold"] += 1
        elif len(hfam["fail_samples"]) < 5:
            hfam["fail_samples"].append(h)
    fam = ctx.cov["families"]["exec_sync"]
    fam.update(stats)
    fam["skipped_invalid_cases"] = skipped
    fam["invalid_schema_document_pairs"] = invalid_pairs
    fam["data_null"] = sum(1 for _, i, _, _ in rows if " data=N " in i)
    fam["with_errors"] = sum(1 for _, i, _, _ in rows if "errors=[E" in i)
    fam["request_errors"] = sum(1 for _, i, _, _ in rows if i == "reqerr")
    for r in rows[:: max(1, len(rows) // 6)]:
        ctx.sample({"family": "exec_sync", "case": r[3][:400], "impl": r[1][:300], "model": r[2][:300]}, limit=6)
    ctx.cov["rule"] = (
        f"exec_sync: {stats['documents']} documents over a schema with two interfaces, a union, nested lists of non-null "
        "items, an enum, a custom scalar, arguments with defaults and input objects (aliases, merged sub-selections, "
        "fragments on interfaces/unions, @skip/@include with literal and variable conditions, __typename, mutations, "
        "introspection meta-fields) x variable values x resolver worlds: every (object type, field) the document can call "
        "gets a behaviour from a per-type alphabet (right value(s), wrong-type leaf, null, resolver error, object of a "
        "wrong / unknown / non-member type, lists with failing / null / skipped items, non-list for a list); all worlds "
        f"when there are at most {limit} (exhaustive for {stats['exhaustive_documents']} documents), otherwise the "
        "all-correct world, every one-site variation over a richer alphabet, and random worlds. Non-trivial: every case.")
    ctx.cov["exhaustive"] = False
    ctx.assumptions += [
        "the schema reaches the model as dumped by the real builder without built-in definitions; the five built-in scalars are added by the glue",
        "error messages are not compared: an error is (class, path) with class = carries the resolver's own message / suspected validation bug / other",
        "the harness's resolvers identify an object by (id, claimed type name) and answer from the table; a missing entry is a resolver error",
        "equality of the model with the reference executor is proved (C26_eq_reference) for schemas with sch_exec_wf (which includes the covariance of implemented fields, sch_impl_covariant), documents without fragment cycles (rd_acyclic) and with one field name per response key in every grouped field set (rd_mergeable; decidable sufficient condition rd_alias_consistent); the decidable hypotheses are evaluated by the extracted predicates on every generated (schema, document) (families.exec_hyps), and implementation = reference is still checked on every case",
        "the typed document is td_build's (valid documents); that rd_mergeable follows from validation's FieldsInSetCanMerge is not proved",
        "fuel: C26_fuel_enough proves that the model never reports out-of-fuel under rd_acyclic (the reference likewise, inside C26_eq_reference)",
    ]
    return ctx.finish(props)


def replay(ctx, path):
    r = json.load(open(path))
    model = build_model()
    impl = build_impl()
    print("case :", r.get("case_readable", r["case"]))
    print("impl :", run_family(impl, r["family"], [r["case"]])[0])
    if "model_case" in r:
        print("model:", run_family(model, r["family"], [r["model_case"]])[0])
    return 0
