"""C15 — valid schemas are internally consistent.

For every schema the implementation ACCEPTS, `consistent_impl` (harness/src/c15.rs, written against the public
fields of Valid<Schema>, independently of the validator) evaluates the conjunction of Schema/Consistent.v on the
real data structure: accepted but inconsistent = violation (oracle).  The model evaluates the boolean
cs_consistent_b / cs_scalars_exact_b (proved to imply / to be equivalent to the declarative statements) on the
dump of the same validated schema and must agree.  Cases: C14's generator plus hill-climbing from invalid
schemas (repairing mutations until validation passes)."""
import json
from collections import Counter
from common import *
from props import c14
from props import c14_gen as G


def hill_climb(ctx, impl, model):
    """(tag, sdl) of schemas reached by repairing invalid ones; guided by the specification's rule vector"""
    rng = ctx.rng
    bases = [("rich", G.base_rich()), ("implicit", G.base_implicit()), ("redef", G.base_redef())]
    for i in range(6 if ctx.tier == "quick" else 24):
        bases.append(("hrand%d" % i, G.base_random(rng, 1000 + i)))
    pool = []
    per_base = 50 if ctx.tier == "quick" else 80
    for bname, b in bases:
        ms = [x for x in G.mutants(b, rng, per=2) if not x[0].startswith(("build/", "default_values/"))]
        for mname, m in rng.sample(ms, min(per_base, len(ms))):
            if rng.random() < (0.2 if ctx.tier == "quick" else 0.3):
                # a second mutation on top of the first
                ms2 = [x for x in G.mutants(m, rng, per=1) if not x[0].startswith(("build/", "default_values/"))]
                if ms2:
                    n2, m2 = rng.choice(ms2)
                    mname, m = mname + "+" + n2, m2
            pool.append((bname + "/" + mname, m, 0))
    reached, steps_hist = [], Counter()
    for rnd in range(6):
        if not pool:
            break
        texts = [G.sdl(m) for _, m, _ in pool]
        lines, _ = c14.stage1(impl, texts)
        mout = run_family(model, "c14_validate", lines)
        nxt = []
        for (tag, m, steps), text, mo in zip(pool, texts, mout):
            if c14.verdict(mo) == "valid":
                if steps > 0:
                    reached.append(("climb%d/%s" % (steps, tag), text))
                    steps_hist[steps] += 1
                continue
            fr = [r for r in c14.failed_rules(mo) if r != "build_errors"]
            if "build_errors" in c14.failed_rules(mo) or not fr:
                continue
            r = G.repair(m, rng.choice(fr) if rng.random() < 0.3 else fr[0], rng)
            if r is not None and r != m:
                nxt.append((tag, r, steps + 1))
        pool = nxt
    return reached, dict(steps_hist), len(pool)


def describe(case):
    return unhexs(case.split(" ", 1)[0])


def run(ctx):
    props = check_props(ctx.pid)
    model = build_model()
    impl = build_impl()
    tagged = c14.gen_cases(ctx)
    climbed, steps_hist, unrepaired = hill_climb(ctx, impl, model)
    seen = {s for _, s in tagged}
    for t, s in climbed:
        if s not in seen:
            seen.add(s)
            tagged.append((t, s))
    c14.set_builtins(impl)
    hx = [hexs(s) for _, s in tagged]
    dumps = run_family(impl, "c15_dump", hx)
    lines = []
    for h, o in zip(hx, dumps):
        if not (o == "R" or o.startswith("A ")):
            raise MachineryError(f"c15_dump failed on {unhexs(h)!r}: {o[:200]}")
        lines.append(f"{h} {o}")
    tag_of = {l: t for l, (t, _) in zip(lines, tagged)}

    def compare(i, m):
        return i.split(" ")[:3] == m.split(" ")[:3]

    rows = ctx.correspond(impl, model, "c15_check", lines, compare=compare, describe=describe,
                          nontrivial=lambda c, o: o.startswith("accepted"))
    fam = ctx.cov["families"]["c15_check"]
    acc = [(c, i, m) for c, i, m in rows if i.startswith("accepted")]
    fam["accepted"] = len(acc)
    fam["rejected"] = len(rows) - len(acc)
    fam["accepted_from_hill_climbing"] = sum(1 for c, _, _ in acc if tag_of[c].startswith("climb"))
    fam["hill_climbing"] = {"reached_valid_after_steps": steps_hist, "given_up": unrepaired}
    fam["accepted_and_consistent"] = sum(1 for _, i, _ in acc if "consistent=1 scalars=1" in i)
    pruned = Counter()
    for c, _, _ in acc:
        mark = c.split(" ")[2]
        pruned[mark if mark.startswith("P") else "F"] += 1
    fam["accepted_by_builtin_scalars_pruned"] = dict(sorted(pruned.items()))
    for c, i, m in acc[:: max(1, len(acc) // 4)]:
        ctx.sample({"tag": tag_of[c], "impl": i, "model": m}, limit=5)
    # --- histories: validate; into_inner; add fields of built-in scalar types to an object type; validate again (twice):
    # every Valid<Schema> reached on the way must be consistent (the prune/restore of built-in scalar definitions is
    # where a re-validated schema could end up referencing a type that is not in `types`)
    import itertools
    SC = ["Int", "Float", "String", "Boolean", "ID"]
    bases = []
    for k in range(0, 6):
        for used in itertools.combinations(SC, k):
            fields = " ".join(f"f{i}: {t}" for i, t in enumerate(used)) or "self: Query"
            bases.append(f"type Query {{ {fields} }}")
            bases.append(f"type Query {{ q: T }} type T {{ {fields} }} input I {{ a: {used[0] if used else 'I'} }}")
    hist = []
    for b in bases:
        for adds in ([], ["Int"], ["ID"], ["Float"], ["ID", "Float"], ["Int", "Float", "ID"], ["Float", "Float"], ["Nope"], ["Boolean", "String"]):
            hist.append(f"{hexs(b)} Query {','.join(adds) or '-'}")
    acc_src = [c.split(" ")[0] for c, _, _ in acc]
    for h in acc_src[:: max(1, len(acc_src) // (150 if ctx.tier == "quick" else 1500))]:
        for adds in (["ID"], ["Float", "Int"], ["Int", "Float", "ID"]):
            hist.append(f"{h} Query {','.join(adds)}")
    hist = sorted(set(hist))
    hdesc = lambda c: f"add fields of types {c.split(' ')[2]} to {c.split(' ')[1]} after validation, validate again\n" + unhexs(c.split(" ")[0])
    hrows = ctx.correspond(impl, model, "c15_hist", hist, compare=lambda i, m: True, describe=hdesc,
                           nontrivial=lambda c, o: o.startswith("v=11"))
    hf = ctx.cov["families"]["c15_hist"]
    hf["valid_twice"] = sum(1 for _, i, _ in hrows if i.startswith("v=11"))
    hf["second_validation_fails"] = sum(1 for _, i, _ in hrows if i.startswith("v=10"))
    hf["note"] = "implementation-only oracle: consistent_impl on every Valid<Schema> of validate; into_inner; mutate; validate; validate"
    ctx.cov["rule"] = (
        "every case of the C14 generator (valid-by-construction schemas, rule-directed mutants, matrices, corner cases) "
        "plus schemas reached by hill-climbing: single and double mutants of the bases are repaired rule by rule (the "
        "repair is chosen from the specification's failing rule and prefers another way back into validity than undoing "
        "the mutation) until validation passes.  Non-trivial = accepted by Schema::parse_and_validate; for those the "
        "harness oracle consistent_impl evaluates every conjunct of Consistent and the built-in scalar sentence on the "
        "real Valid<Schema>, and the model's booleans on the dumped schema must agree.  c15_hist: every subset of the five built-in "
        "scalars used by a base schema x 9 lists of field types added after a first validation, plus a sample of the accepted schemas: "
        "consistent_impl on every Valid<Schema> reached by validate; into_inner; add fields; validate; validate.")
    ctx.cov["exhaustive"] = False
    ctx.assumptions += [
        "C15_valid_consistent is about the executable specification checker (Schema/Valid.v); that apollo-compiler accepts only what that checker accepts is what the C14 tie tests, and this tie re-checks the conclusion directly on every accepted schema",
        "the built-in scalar sentence is evaluated on the validated schema only (prune/insert itself is C16's model)",
    ]
    return ctx.finish(props)


def replay(ctx, path):
    r = json.load(open(path))
    model = build_model()
    impl = build_impl()
    if r.get("family") == "c15_hist":
        print("case :", r.get("case_readable", r["case"]))
        print("impl :", run_family(impl, "c15_hist", [r["case"]])[0])
        return 0
    src = describe(r["case"])
    c14.set_builtins(impl)
    h = hexs(src)
    d = run_family(impl, "c15_dump", [h])[0]
    line = f"{h} {d}"
    print("schema:\n" + src)
    print("impl :", run_family(impl, "c15_check", [line])[0])
    print("model:", run_family(model, "c15_check", [line])[0])
    return 0
