"""Two-stage tie helpers shared by C18 / C19 / C20: obtain the schema term and the AST term from the real
builder / parser (families xschema_dump and ast_dump), and assemble case lines
`<S|N> <hex schema> <hex doc> <schema term|-> <ast term>`."""
from common import *
from props import exec_gen as G


def schema_terms(impl, schemas):
    """schemas: list of Sch -> list of (sch, hex, term, is_valid)"""
    hs = [hexs(s.text) for s in schemas]
    outs = run_family(impl, "xschema_dump", hs)
    res = []
    for s, h, o in zip(schemas, hs, outs):
        tag, _, term = o.partition(" ")
        if tag not in ("valid", "invalid"):
            raise MachineryError("xschema_dump failed: " + o[:200])
        res.append((s, h, term, tag == "valid"))
    return res


def ast_terms(impl, docs):
    """docs: list of str -> list of (hex, ast term or None when the text has syntax errors)"""
    hd = [hexs(d) for d in docs]
    outs = run_family(impl, "ast_dump", hd)
    res = []
    for h, o in zip(hd, outs):
        tag, _, rest = o.partition(" ")
        res.append((h, rest if tag == "ok" else None))
    return res


def make_cases(impl, pairs):
    """pairs: list of (schema entry from schema_terms or None, doc text).  Returns (cases, n_syntax_errors);
    pairs whose document does not parse are dropped (the parser is C01-C08's subject)."""
    asts = ast_terms(impl, [d for _, d in pairs])
    cases, dropped = [], 0
    for (se, _), (hd, at) in zip(pairs, asts):
        if at is None:
            dropped += 1
            continue
        if se is None:
            cases.append(f"N - {hd} - {at}")
        else:
            cases.append(f"S {se[1]} {hd} {se[2]} {at}")
    return cases, dropped


def describe_case(c):
    p = c.split(" ")
    return {"mode": p[0], "schema": unhexs(p[1]) if p[0] == "S" else None, "document": unhexs(p[2])}


def gen_pairs(ctx, impl, n_schemas, docs_per_schema, chaos_levels, broken_share=0.2, schemaless_share=0.15):
    """(schema entry | None, doc text) pairs, grouped by schema (the runners cache the last schema)."""
    rng = ctx.rng
    schemas = [G.gen_schema(rng, broken=(rng.random() < broken_share)) for _ in range(n_schemas)]
    entries = schema_terms(impl, schemas)
    pairs = []
    for e in entries:
        for j in range(docs_per_schema):
            chaos = chaos_levels[j % len(chaos_levels)]
            doc = G.DocGen(e[0], rng, chaos).doc(depth=rng.choice([2, 3, 3, 4]))
            pairs.append((e, doc))
            if rng.random() < schemaless_share:
                pairs.append((None, doc))
    # every kind of single mistake in every kind of context (exec_gen.context_matrix), on the first regular schemas
    for e in [e for e in entries if e[3]][:3]:
        for d in G.context_matrix(e[0]):
            pairs.append((e, d))
    return entries, pairs
