"""C01 — parsing never panics, hangs or overflows the stack (parser part; the lexer is C03's model)."""
from common import *
from props.parse_util import *


def classify(case, iobs, mobs):
    return None      # no known finding: D1 and D2 were repaired in /repo


def cases_for(ctx):
    quick = ctx.tier == "quick"
    tuples = []
    # (i) bounded-exhaustive character strings, all three entries
    n_chars = 3 if quick else 4
    chars = list(all_strings(ALPHA28, n_chars))
    if quick:
        # length 3 is sampled 1 in 3 per entry (offset by entry so that the union covers all of it)
        for k, e in enumerate(ENTRIES):
            for j, s in enumerate(chars):
                if len(s) < 3 or (j + k) % 3 == 0:
                    tuples.append((e, None, 500, s))
    else:
        # length <= 3 completely through all entries; of length 4 every eighth string, through the document entry
        tuples += [(e, None, 500, s) for e in ENTRIES for j, s in enumerate(chars) if len(s) < 4 or (e == "doc" and j % 8 == 0)]
    # (i') bounded-exhaustive token sequences
    n_tok = 3 if quick else 4
    toks = list(token_strings(n_tok))
    for k, e in enumerate(ENTRIES):
        for j, s in enumerate(toks):
            if quick and not (s.count(" ") < 2 or (j + k) % 3 == 0):
                continue
            if not quick and s.count(" ") >= 3 and (e != "doc" or j % 8 != 0):
                continue
            tuples.append((e, None, 500, s))
    # (ii) grammar-generated documents and token-level mutations; the repository's parser test data
    g = Gen(ctx.rng)
    docs = [simple_tokens(d) for d in FIXED_DOCS]
    docs += [g.document() for _ in range(6 if quick else 200)]
    for d in docs:
        tuples.append(("doc", None, 500, render(d)))
        tuples.append(("doc", None, 500, render(d, ctx.rng)))
        muts = list(token_mutations(d))
        if quick:
            muts = muts[:: max(1, len(muts) // 80)]
        for m in muts:
            tuples.append(("doc", None, 500, render(m)))
    for src in test_data_files():
        tuples.append(("doc", None, 500, src))
        tuples.append(("doc", 50, 4, src))
    # selection sets and types with mutations, through their own entries
    for _ in range(30 if quick else 400):
        ss = g.selection_set()
        for m in [ss, ss[1:-1]] + list(token_mutations(ss))[:: 7 if quick else 1]:
            tuples.append(("selset", None, 500, render(m)))
        t = g.ty()
        for m in [t] + list(token_mutations(t)):
            tuples.append(("type", None, 500, render(m)))
    # (ii') string literals at every boundary of the escape rules, in value and description position: the compiler's
    # conversion of the syntax tree decodes them (unwrap on hex digits / char::from_u32), so a literal the lexer
    # lets through although it has no value must not panic there
    esc = ["\\u%04X" % c for c in (0x0000, 0x001F, 0x007F, 0x00E9, 0xD7FF, 0xD800, 0xD801, 0xDBFF, 0xDC00, 0xDFFE, 0xDFFF,
                                     0xE000, 0xFFFD, 0xFFFF)]
    esc += ["\\uD83D\\uDE00", "\\uDBFF\\uDFFF", "\\udfff", "\\ud800", "\\u12", "\\u", "\\u{1F600}", "\\uDFFG", "\\x41", "\\", "\\n\\t\\\\\\/"]
    for x in esc:
        for lit in ['"%s"' % x, '"a%sb"' % x]:
            tuples.append(("doc", None, 500, "{ f(a: %s) }" % lit))
            tuples.append(("doc", None, 500, "%s type T { f: Int }" % lit))
            tuples.append(("doc", None, 500, "query($v: String = %s) { f }" % lit))
            tuples.append(("selset", None, 500, "f(a: %s)" % lit))
        tuples.append(("doc", None, 500, '{ f(a: """%s""") }' % x))
    # (ii'') lexically interesting material (the lexer generators of C03), through the document entry
    from props import c03 as LX
    lex = LX.gen_numbers()[:: 23 if quick else 2] + LX.gen_strings(ctx.rng, 150 if quick else 2000) \
        + LX.gen_blocks(ctx.rng, 80 if quick else 1000) + LX.gen_comments_spreads()
    for x in lex:
        tuples.append(("doc", None, 500, "{ f(a: %s) }" % x))
    # (iii) deep nests of each recursive construct around each recursion limit
    tuples += deep_cases()
    if not quick:
        tuples += [(e, None, 4000, s) for e, s, _ in deep_nests(3999)]
    # (iv) all (tl, rl) pairs for small documents
    small = ["{ a { b } } { c d e f }", "{ a { b } } é", '"desc" type T', "type T { f(a: [[Int]] = [[1]]): T }",
             "{ a(x: {y: [1, {z: 2}]}) }", "[[Int!]]!", "a { b } c", "{ ... on T { a } }", ""]
    for src in small:
        ntok = len(src.split()) + 6
        for e in ENTRIES:
            for tl in list(range(0, ntok + 2))[:: 1 if not quick else 2] + [None]:
                for rl in range(0, 5):
                    tuples.append((e, tl, rl, src))
    return tuples


def run(ctx):
    props = check_props(ctx.pid)
    model = build_model()
    impl = build_impl()
    cases = with_items(impl, cases_for(ctx))
    rows = ctx.correspond(impl, model, "c01_parse", cases, classify=classify,
                          nontrivial=lambda c, o: len(c.split(" ")[3]) > 2, describe=describe)
    comp = composed_sample(ctx, cases, limit=1500 if ctx.tier == "quick" else 40000)
    ctx.correspond(impl, model, "c01_parse", comp, classify=classify, nontrivial=lambda c, o: True,
                   describe=describe)
    ctx.cov["composed_with_lexer_model"] = {
        "cases": len(comp),
        "note": "these cases carry no items: the model runner lexes the source with Lex/Fun.v (lex_all / lex_limited) and "
                "parses the result, so lexer model + parser model composed are tied to the code as well"}
    fam = ctx.cov["families"]["c01_parse"]
    fam["returned"] = sum(1 for _, i, _ in rows if i.startswith("ok"))
    fam["with_errors"] = sum(1 for _, i, _ in rows if i.startswith("ok") and "e=-" not in i)
    fam["with_limit_error"] = sum(1 for _, i, _ in rows if i.startswith("ok e=") and "l" in i.split("e=")[1])
    by_entry = {}
    for c, _, _ in rows:
        by_entry[c.split(" ", 1)[0]] = by_entry.get(c.split(" ", 1)[0], 0) + 1
    fam["by_entry"] = by_entry
    for c, i, m in rows[:: max(1, len(rows) // 5)]:
        ctx.sample({"case": describe(c), "impl": i, "model": m})
    struct_report(ctx, impl, model, cases)
    ctx.cov["rule"] = (
        "c01_parse: (i) every string of length <= 2 and (quick: a third of, per entry, offset so that the union is complete; thorough: all of) length 3..4 over the "
        "28-symbol lexer alphabet, three entries (thorough: length <= 3 complete, every eighth string of length 4 through the document entry); (i') token sequences over 28 token symbols to length 3 (quick: "
        "a third of length 3) / 4 (thorough: every eighth sequence of length 4, document entry); (ii) fixed documents covering every definition kind, generated documents, their "
        "token-level mutations (delete/duplicate/swap/replace/truncate at every position), the 107 files of "
        "test_data/parser, selection sets and types with mutations through their own entries; (iii) deep nests of "
        "every recursive construct at depths rl-1, rl, rl+1 for rl in {0,1,2,3,31,32,499,500,501}; (iv) all "
        "(token limit, recursion limit) pairs for small documents.  Each case runs on a 1 MiB stack (compiler entry points: 2 MiB) under a 20 s "
        "watchdog and additionally through the compiler's parse entry points.  Non-trivial: source longer than one "
        "character; distinct by case text.")
    ctx.cov["exhaustive"] = False
    ctx.assumptions += [
        "most cases feed the parser model the items the real lexer yields (fast); a sample runs lexer model + parser model composed on the source string",
        "release build of the harness (debug_assert! off); the model's debug flavour is covered by the theorem only",
        "real stack use per activation is not modelled: exhibited only by the deep-nest cases on a 1 MiB stack (measured: 0.7-0.9 KiB per nesting level in the release build; 256 KiB overflows from depth ~250)",
        "a case that raises the recursion limit above the default runs on a stack in proportion (2 KiB per permitted nesting level, 1 MiB for the default 500): the oracle is the linear bound stack <= 2 KiB x (min(limit, nesting) + 1); a caller who raises the limit beyond what the thread's stack carries overflows it, which is what the limit is documented to be for (comment at DEFAULT_RECURSION_LIMIT) and is not counted against the property",
    ]
    return ctx.finish(props)


def replay(ctx, path):
    return replay_generic(ctx, path, ["c01_parse"])
