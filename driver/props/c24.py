"""C24 — introspection agrees with the reference implementation.

The reference is the Gallina executable specification Intro/Reference.v (extracted into modelrun); the
implementation side is the real `introspection::partial_execute`.  Two-stage tie: the schema and the query are
first dumped by the real front end (`schema_dump b`, `ast_dump`), the dumps go to the reference, the source
texts go to the implementation; the two `data` values are compared as JSON, order-sensitively except where the
reference marks a list as order-free (`types`, `directives`, `possibleTypes` of an interface)."""
import json
import os
from pathlib import Path

from common import *
from props import c24_gen

NC_CLASS = "default_value_not_coerced"


# ---------------------------------------------------------------------------------- JSON comparison
def eq_mod(i, m):
    """implementation value i equals reference value m, modulo the order of the lists the reference marks free"""
    if isinstance(m, dict):
        if "#err" in m:
            return False
        if "#bag" in m:
            ms = m["#bag"]
            if not isinstance(i, list) or len(i) != len(ms):
                return False
            used = [False] * len(ms)
            for k, x in enumerate(i):
                order = [k] + [j for j in range(len(ms)) if j != k]
                for j in order:
                    if not used[j] and eq_mod(x, ms[j]):
                        used[j] = True
                        break
                else:
                    return False
            return True
        return (isinstance(i, dict) and list(i.keys()) == list(m.keys())
                and all(eq_mod(i[k], m[k]) for k in m))
    if isinstance(m, list):
        return isinstance(i, list) and len(i) == len(m) and all(eq_mod(a, b) for a, b in zip(i, m))
    if type(i) is not type(m):
        return False
    return i == m or (isinstance(i, str) and same_graphql_value(i, m))


def graphql_value_tokens(text):
    """tokens of a GraphQL value literal with string values decoded, or None if `text` is not one.
    Used only to compare two different strings: `defaultValue` is "a String encoding (using the GraphQL
    language) of the default value", so two encodings of the same value (other escape sequences, other
    white space) are the same observation.  Number spellings are kept as they are."""
    toks, n, k = [], len(text), 0
    esc = {'"': '"', "\\": "\\", "/": "/", "b": "\b", "f": "\f", "n": "\n", "r": "\r", "t": "\t"}
    while k < n:
        c = text[k]
        if c in " \t,\n\r\ufeff":
            k += 1
        elif c in "[]{}:$!":
            toks.append(c)
            k += 1
        elif c == '"':
            if text.startswith('"""', k):
                return None
            k += 1
            out = []
            while True:
                if k >= n or text[k] in "\n\r":
                    return None
                c = text[k]
                if c == '"':
                    k += 1
                    break
                if c == "\\":
                    if k + 1 >= n:
                        return None
                    e = text[k + 1]
                    if e == "u":
                        h = text[k + 2:k + 6]
                        if len(h) != 4 or any(x not in "0123456789abcdefABCDEF" for x in h):
                            return None
                        out.append(chr(int(h, 16)))
                        k += 6
                    elif e in esc:
                        out.append(esc[e])
                        k += 2
                    else:
                        return None
                else:
                    if ord(c) < 0x20 and c != "\t":
                        return None
                    out.append(c)
                    k += 1
            toks.append(("s", "".join(out)))
        elif c.isascii() and (c.isalnum() or c in "_-+."):
            j = k
            while j < n and text[j].isascii() and (text[j].isalnum() or text[j] in "_-+."):
                j += 1
            toks.append(("w", text[k:j]))
            k = j
        else:
            return None
    return toks


def same_graphql_value(a, b):
    if not a or not b or a[0] not in '"[{' or b[0] not in '"[{':
        return False
    ta = graphql_value_tokens(a)
    return ta is not None and ta == graphql_value_tokens(b)


def diffs(i, m, path, out, limit=40):
    """leaf-level differences (path, impl, reference); free lists are paired greedily, leftovers in order"""
    if len(out) >= limit or eq_mod(i, m):
        return
    if isinstance(m, dict) and "#bag" in m and isinstance(i, list) and len(i) == len(m["#bag"]):
        ms = list(m["#bag"])
        rest_i = []
        for x in i:
            for j, y in enumerate(ms):
                if y is not None and eq_mod(x, y):
                    ms[j] = None
                    break
            else:
                rest_i.append(x)
        rest_m = [y for y in ms if y is not None]
        for k, (x, y) in enumerate(zip(rest_i, rest_m)):
            label = x.get("name") if isinstance(x, dict) and isinstance(x.get("name"), str) else k
            diffs(x, y, f"{path}[{label}]", out, limit)
        return
    if isinstance(m, dict) and "#bag" not in m and "#err" not in m and isinstance(i, dict) \
            and list(i.keys()) == list(m.keys()):
        for k in m:
            diffs(i[k], m[k], f"{path}.{k}", out, limit)
        return
    if isinstance(m, list) and isinstance(i, list) and len(i) == len(m):
        for k, (x, y) in enumerate(zip(i, m)):
            diffs(x, y, f"{path}[{k}]", out, limit)
        return
    out.append((path, i, m))


def parse_obs(line):
    """('ok', errors, data, flags) | (other, ...)"""
    if not line.startswith("ok e="):
        return (line.split(" ")[0], None, None, "")
    head, rest = line[5:].split(" ", 1)
    flags = ""
    if rest.endswith(" std"):
        rest, flags = rest[:-4], "std"
    return ("ok", int(head), json.loads(rest), flags)


def compare(iobs, mobs):
    i = parse_obs(iobs)
    if i[0] != "ok":
        # invalid schema / invalid query / depth limit / request error: outside the property's domain
        return i[0] in ("invalid-schema", "invalid-query", "no-operation", "depth", "reqerr")
    m = parse_obs(mobs)
    if m[0] != "ok":
        return False
    return i[1] == 0 and eq_mod(i[2], m[2])


def make_classify(meta):
    def classify(case, iobs, mobs):
        """the known finding: a default value reported as the literal instead of the coerced value.
        Narrow: the case's schema contains such a default (known to the generator), there is no error, and
        every difference is a string the implementation reports that is one of those literals."""
        nc = meta.get(case, {}).get("nc")
        if not nc:
            return None
        i, m = parse_obs(iobs), parse_obs(mobs)
        if i[0] != "ok" or m[0] != "ok" or i[1] != 0:
            return None
        out = []
        diffs(i[2], m[2], "data", out)
        if out and all(isinstance(a, str) and isinstance(b, str) and a in nc for _, a, b in out):
            return NC_CLASS
        return None
    return classify


def describe_case(meta):
    def describe(case):
        f = case.split(" ")
        return {"schema": unhexs(f[0]), "query": unhexs(f[1]), **{k: v for k, v in meta.get(case, {}).items()}}
    return describe


# ---------------------------------------------------------------------------------- case construction
def dump_all(impl, family, payloads):
    """run a dump family of c00 over payloads; 'ok:<dump>' or 'bad'"""
    outs = run_family(impl, family, payloads)
    res = []
    for o in outs:
        if o.startswith("ok "):
            res.append("ok:" + o[3:])
        else:
            res.append("bad")
    return res


def corpus_schemas():
    d = VERIF / "corpus" / "C24"
    out = []
    if d.is_dir():
        for p in sorted(d.glob("*.graphql")):
            s = c24_gen.Schema()
            s.text = p.read_text()
            s.type_names = []
            for line in s.text.split("\n"):
                w = line.split()
                if len(w) >= 2 and w[0] in ("type", "interface", "union", "enum", "input", "scalar"):
                    s.type_names.append(w[1].split("{")[0].split("@")[0])
            nc = [l[len("# nc: "):] for l in s.text.split("\n") if l.startswith("# nc: ")]
            s.nc_defaults = nc
            s.features = {"corpus:" + p.name}
            out.append(s)
    return out


def build_cases(ctx, impl, nschemas, nqueries):
    rng = ctx.rng
    schemas = corpus_schemas()
    ncorpus = len(schemas)
    for k in range(nschemas):
        # three of four schemas only have defaults in coerced form, so that the known default-value finding
        # does not hide other differences in most of the cases
        schemas.append(c24_gen.SchemaGen(rng, allow_nc=(k % 4 == 3)).generate())
    pairs = []   # (schema index, query text, tags)
    for si, s in enumerate(schemas):
        pairs.append((si, c24_gen.STD_QUERY, {"std"}))
        pairs.append((si, c24_gen.STD_QUERY_NODEP, {"std-nodep"}))
        wc = c24_gen.with_concrete(c24_gen.STD_QUERY, s, rng)
        if wc:
            pairs.append((si, wc, {"std+concrete"}))
        for _ in range(nqueries):
            qg = c24_gen.QueryGen(rng, s)
            pairs.append((si, qg.generate(), set(qg.features) | {"sub-query"}))
    sdumps = dump_all(impl, "c24_schema_dump", [hexs(s.text) for s in schemas])
    qtexts = sorted({q for _, q, _ in pairs})
    qdumps = dict(zip(qtexts, dump_all(impl, "ast_dump", [hexs(q) for q in qtexts])))
    cases, meta = [], {}
    for si, q, tags in pairs:
        s = schemas[si]
        case = f"{hexs(s.text)} {hexs(q)} {sdumps[si]} {qdumps[q]}"
        cases.append(case)
        meta[case] = {"nc": list(s.nc_defaults), "tags": sorted(tags), "schema_features": sorted(s.features),
                      "schema_index": si}
    bcases = [f"{hexs(s.text)} {sdumps[si]}" for si, s in enumerate(schemas)]
    return schemas, ncorpus, cases, meta, bcases


def run(ctx):
    props = check_props(ctx.pid)
    model = build_model()
    impl = build_impl()
    nschemas, nqueries = (110, 6) if ctx.tier == "quick" else (600, 12)
    schemas, ncorpus, cases, meta, bcases = build_cases(ctx, impl, nschemas, nqueries)

    # --- built-in definitions of every schema against the specification's (and well-formedness)
    rows = ctx.correspond(impl, model, "c24_builtins", bcases,
                          nontrivial=lambda c, o: o == "ok",
                          describe=lambda c: {"schema": unhexs(c.split(" ")[0])},
                          compare=lambda i, m: i == "invalid-schema" or i == m)
    valid = sum(1 for _, i, _ in rows if i == "ok")
    ctx.cov["families"]["c24_builtins"]["valid_schemas"] = valid
    ctx.cov["families"]["c24_builtins"]["rejected_schemas"] = len(rows) - valid

    # --- the introspection responses
    rows = ctx.correspond(impl, model, "c24_introspect", cases,
                          classify=make_classify(meta),
                          nontrivial=lambda c, o: o.startswith("ok"),
                          describe=describe_case(meta),
                          compare=compare)
    fam = ctx.cov["families"]["c24_introspect"]
    counts, feats, qfeats = {}, {}, {}
    std_seen = std_marked = 0
    for c, i, m in rows:
        k = i.split(" ")[0]
        counts[k] = counts.get(k, 0) + 1
        tags = meta[c]["tags"]
        if "std" in tags and m.startswith("ok"):
            std_seen += 1
            if m.endswith(" std"):
                std_marked += 1
        if k == "ok":
            for t in tags:
                qfeats[t] = qfeats.get(t, 0) + 1
            if "std" in tags:
                for t in meta[c]["schema_features"]:
                    feats[t] = feats.get(t, 0) + 1
    fam["impl_outcomes"] = counts
    fam["query_features_executed"] = dict(sorted(qfeats.items()))
    fam["schema_features_in_valid_schemas"] = dict(sorted(feats.items()))
    fam["standard_query_cases"] = std_seen
    if std_seen != std_marked:
        # the Gallina constant ir_standard_query (about which the theorems speak) is not the query text sent
        raise MachineryError(f"ir_standard_query differs from the standard query text ({std_marked}/{std_seen} marked)")
    for c, i, m in rows:
        if i.startswith("ok") and "sub-query" in meta[c]["tags"]:
            ctx.sample({"family": "c24_introspect", "query": unhexs(c.split(" ")[1])[:400], "impl": i[:300]}, limit=3)
    ctx.cov["rule"] = (
        f"{ncorpus} corpus schemas + {nschemas} generated schemas (custom scalars with @specifiedBy, enums, acyclic "
        "input objects, interfaces implementing interfaces, objects, unions, type/enum/union/schema extensions, "
        "directives over all 19 locations, repeatable; explicit or implicit schema definition; quoted and block "
        "descriptions; @deprecated with/without/null reason on fields, arguments, input fields, enum values; default "
        "values of every kind incl. nested lists/objects, escapes, `1` as Float; one schema in four also has "
        "defaults in non-coerced form); per schema: the standard full introspection query (text checked equal to the "
        "Gallina constant), the same without includeDeprecated, the same with concrete root fields, and "
        f"{nqueries} random sub-queries (aliases, merged fields, fragments, @skip/@include, includeDeprecated "
        "true/false/null/absent, __type, __typename, concrete root fields). A case is non-trivial when the schema "
        "and query validate and pass the depth check (it is executed); distinct by case text.")
    ctx.cov["exhaustive"] = False
    ctx.assumptions += [
        "the reference is an executable specification in Gallina (graphql-js is not installed); its documented "
        "choices are marked CHOICE/DRAFT in Intro/Reference.v",
        "schema and query reach the reference as dumped by the real builder/parser (schema building: C12-C16; parsing: C01-C08)",
        "descriptions of built-in definitions are taken from the implementation (the specification fixes none); "
        "their structure is checked against the specification's introspection schema modulo field order",
        "number literals in default values keep their spelling (the reference implementation would re-print the double)",
        "queries use literal arguments and literal @skip/@include conditions only (no variables)",
    ]
    return ctx.finish(props)


def replay(ctx, path):
    r = json.load(open(path))
    model = build_model()
    impl = build_impl()
    fam, case = r["family"], r["case"]
    f = case.split(" ")
    print("schema:\n" + unhexs(f[0]))
    if fam == "c24_introspect":
        print("query:\n" + unhexs(f[1]))
    io = run_family(impl, fam, [case])[0]
    mo = run_family(model, fam, [case])[0]
    if fam == "c24_introspect":
        i, m = parse_obs(io), parse_obs(mo)
        print("impl :", io[:200])
        print("model:", mo[:200])
        if i[0] == "ok" and m[0] == "ok":
            out = []
            diffs(i[2], m[2], "data", out)
            for p, a, b in out[:20]:
                print(f"  differs at {p}: impl={json.dumps(a)[:200]} reference={json.dumps(b)[:200]}")
            print("agree" if compare(io, mo) else "DISAGREE")
            return 0 if compare(io, mo) else 1
        return 0 if compare(io, mo) else 1
    print("impl :", io)
    print("model:", mo)
    return 0 if (io == "invalid-schema" or io == mo) else 1
