"""C30 — names and nodes are memory-safe shared values.

Random well-scoped histories over 4 name and 3 node variables per thread are interpreted by the model
(Mem/NameNode.v, extracted) and by the harness on real Name / Node<String> values; both print one observation
per step (what was read, Arc::strong_count of every probe) and, after dropping everything, the number of live
allocations.  Lines must be identical.  Failing histories are shrunk by deleting operations."""
import json
from common import *

NAMES, NODES = 4, 3
TEXTS = ["a", "Query", "b_1", "__typename", "été", "x" * 23, "Z9", "ü"]
FILES = [1, 2, 3, 0x4D, 1 << 31, 1 << 62, (1 << 63) - 1]
TAG = 1 << 63


# --------------------------------------------------------------------------- well-scopedness (mirror of nn_ws_step)

def ws_step(ln, ld, tok):
    """ln/ld: dict (tid, var) -> bool.  Returns False if the token is not allowed, else updates in place."""
    f = tok.split(".")
    t, op = int(f[0]), f[1]
    iv = lambda k: int(f[k])
    live_n = lambda t_, i: ln.get((t_, i)) is True
    dead_n = lambda t_, i: (t_, i) in ln and not ln[(t_, i)]
    live_d = lambda t_, a: ld.get((t_, a)) is True
    dead_d = lambda t_, a: (t_, a) in ld and not ld[(t_, a)]
    if op in ("nh", "ns", "na"):
        if not dead_n(t, iv(2)):
            return False
        ln[(t, iv(2))] = True
    elif op == "nc":
        if not (live_n(t, iv(2)) and dead_n(t, iv(3))):
            return False
        ln[(t, iv(3))] = True
    elif op == "nx":
        if not (live_n(t, iv(2)) and dead_n(iv(3), iv(4))):
            return False
        ln[(iv(3), iv(4))] = True
    elif op in ("nd", "ni"):
        if not live_n(t, iv(2)):
            return False
        ln[(t, iv(2))] = False
    elif op == "nm":
        if not (live_n(t, iv(2)) and dead_n(t, iv(3))):
            return False
        ln[(t, iv(2))] = False
        ln[(t, iv(3))] = True
    elif op == "nw":
        if not (live_n(t, iv(2)) and 0 < int(f[3], 16) < TAG and int(f[4], 16) >= 1):
            return False
    elif op in ("nr", "nt"):
        if not live_n(t, iv(2)):
            return False
    elif op == "nq":
        if not (live_n(t, iv(2)) and live_n(t, iv(3))):
            return False
    elif op in ("dn", "dp"):
        if not dead_d(t, iv(2)):
            return False
        ld[(t, iv(2))] = True
    elif op in ("dc", "ds"):
        if not (live_d(t, iv(2)) and dead_d(t, iv(3))):
            return False
        ld[(t, iv(3))] = True
    elif op == "dx":
        if not (live_d(t, iv(2)) and dead_d(iv(3), iv(4))):
            return False
        ld[(iv(3), iv(4))] = True
    elif op == "dd":
        if not live_d(t, iv(2)):
            return False
        ld[(t, iv(2))] = False
    elif op == "dm":
        if not (live_d(t, iv(2)) and dead_d(t, iv(3))):
            return False
        ld[(t, iv(2))] = False
        ld[(t, iv(3))] = True
    elif op in ("dr", "dg", "dk"):
        if not live_d(t, iv(2)):
            return False
    elif op == "dq":
        if not (live_d(t, iv(2)) and live_d(t, iv(3))):
            return False
    else:
        return False
    return True


def well_scoped(threads, toks):
    ln = {(t, i): False for t in range(threads) for i in range(NAMES)}
    ld = {(t, a): False for t in range(threads) for a in range(NODES)}
    phase = 0
    for tok in toks:
        if tok == "|":
            phase += 1
            continue
        op = tok.split(".")[1]
        if phase > 0 and op in ("na", "nx", "dx", "dg"):
            return False      # only in the sequential phase (see harness/src/c30.rs)
        if not ws_step(ln, ld, tok):
            return False
    return True


# --------------------------------------------------------------------------- generator

def gen_ops(rng, t, ln, ld, n, concurrent, threads):
    """n well-scoped operations of thread t (liveness dicts updated)."""
    out = []
    for _ in range(n):
        live_n = [i for i in range(NAMES) if ln[(t, i)]]
        dead_n = [i for i in range(NAMES) if not ln[(t, i)]]
        live_d = [a for a in range(NODES) if ld[(t, a)]]
        dead_d = [a for a in range(NODES) if not ld[(t, a)]]
        cands = []
        if dead_n:
            i = rng.choice(dead_n)
            cands += [f"{t}.nh.{i}.{hexs(rng.choice(TEXTS))}"] * 2 + [f"{t}.ns.{i}.{rng.randrange(4)}"] * 2
            if not concurrent:
                cands += [f"{t}.na.{i}.{hexs(rng.choice(TEXTS))}"] * 5
            if live_n:
                cands += [f"{t}.nc.{rng.choice(live_n)}.{i}"] * 8 + [f"{t}.nm.{rng.choice(live_n)}.{i}"] * 2
        if live_n:
            i = rng.choice(live_n)
            cands += [f"{t}.nd.{i}"] * 5 + [f"{t}.ni.{i}"] * 2 + [f"{t}.nr.{i}"] * 5 + [f"{t}.nt.{i}"] * 4
            cands += [f"{t}.nw.{i}.{rng.choice(FILES):x}.{rng.randint(1, 60):x}"] * 4
            cands += [f"{t}.nq.{i}.{rng.choice(live_n)}"] * 3
            if not concurrent and threads > 1:
                t2 = rng.randrange(threads)
                free = [j for j in range(NAMES) if not ln[(t2, j)]]
                if free:
                    cands += [f"{t}.nx.{i}.{t2}.{rng.choice(free)}"] * 4
        if dead_d:
            a = rng.choice(dead_d)
            cands += [f"{t}.dn.{a}.{hexs(rng.choice(TEXTS))}"] * 3
            cands += [f"{t}.dp.{a}.{hexs(rng.choice(TEXTS))}.{rng.choice(FILES):x}.{rng.randint(1, 60):x}.{rng.randint(1, 9):x}"] * 3
            if live_d:
                cands += [f"{t}.dc.{rng.choice(live_d)}.{a}"] * 8 + [f"{t}.dm.{rng.choice(live_d)}.{a}"] * 2
                cands += [f"{t}.ds.{rng.choice(live_d)}.{a}.{hexs(rng.choice(TEXTS))}"] * 2
        if live_d:
            a = rng.choice(live_d)
            cands += [f"{t}.dd.{a}"] * 4 + [f"{t}.dr.{a}"] * 5 + [f"{t}.dq.{a}.{rng.choice(live_d)}"] * 4
            cands += [f"{t}.dk.{a}.{hexs(rng.choice(TEXTS) + '!')}"] * 5
            if not concurrent:
                cands += [f"{t}.dg.{a}.{hexs(rng.choice(TEXTS) + '?')}"] * 4
                if threads > 1:
                    t2 = rng.randrange(threads)
                    free = [b for b in range(NODES) if not ld[(t2, b)]]
                    if free:
                        cands += [f"{t}.dx.{a}.{t2}.{rng.choice(free)}"] * 4
        tok = rng.choice(cands)
        assert ws_step(ln, ld, tok), tok
        out.append(tok)
    return out


def gen_history(rng, threaded):
    threads = rng.randint(2, 8) if threaded else 1
    ln = {(t, i): False for t in range(threads) for i in range(NAMES)}
    ld = {(t, a): False for t in range(threads) for a in range(NODES)}
    if not threaded:
        n = rng.choice([5, 8, 12, 20, 40, 80, 200]) if rng.random() < 0.5 else rng.randint(5, 200)
        toks = gen_ops(rng, 0, ln, ld, n, False, 1)
        return f"1 {';'.join(toks)}"
    toks = []
    # sequential phase: creation and distribution of shared values (operations of all threads, in this order)
    for _ in range(rng.randint(4, 12)):
        t = rng.randrange(threads) if rng.random() < 0.4 else 0
        toks += gen_ops(rng, t, ln, ld, rng.randint(1, 4), False, threads)
    for _ in range(rng.randint(1, 4)):
        toks.append("|")
        per = {t: gen_ops(rng, t, ln, ld, rng.randint(0, 25), True, threads) for t in range(threads)}
        # interleave the threads' operations at random (the per-thread order is what counts)
        idx = {t: 0 for t in per}
        order = [t for t in per for _ in per[t]]
        rng.shuffle(order)
        for t in order:
            toks.append(per[t][idx[t]])
            idx[t] += 1
    return f"{threads} {';'.join(toks)}"


def describe(c):
    threads, hist = c.split(" ", 1)
    return {"threads": int(threads), "operations": hist.split(";"),
            "legend": "tid.op.args: nh/ns/na new heap/static/from_arc, nc clone, nd drop, nm move, nw with_location(file,start), "
                      "nr read, nt to_cloned_arc, ni into Arc, nq compare, nx clone to thread; dn/dp node new/new_parsed, dc clone, "
                      "dd drop, dm move, dr read, dq ptr_eq/==/hash, dg get_mut+write, dk make_mut+write, ds same_location, dx clone to "
                      "thread; | barrier (operations after the first barrier run concurrently, one OS thread per tid)"}


def fails(impl, model, case):
    i = run_family(impl, "nn_history", [case], timeout=120)[0]
    m = run_family(model, "nn_history", [case], timeout=120)[0]
    obs, oracle = split_oracle(i)
    return obs != m or (oracle is not None and oracle != "ok")


def shrink(impl, model, case, budget=400):
    threads, hist = case.split(" ", 1)
    toks = hist.split(";")
    n = 0
    chunk = max(1, len(toks) // 2)
    while chunk >= 1 and n < budget:
        i = 0
        progress = False
        while i < len(toks) and n < budget:
            cand = toks[:i] + toks[i + chunk:]
            if cand and well_scoped(int(threads), cand):
                n += 1
                if fails(impl, model, f"{threads} {';'.join(cand)}"):
                    toks = cand
                    progress = True
                    continue
            i += chunk
        if not progress:
            chunk //= 2
    return f"{threads} {';'.join(toks)}"


def run(ctx):
    props = check_props(ctx.pid)
    model = build_model()
    impl = build_impl()
    quick = ctx.tier == "quick"
    n_single = 2000 if quick else 200000
    n_thr = 400 if quick else 20000
    cases = []
    corpus = VERIF / "corpus" / "C30" / "histories.txt"
    if corpus.exists():
        cases += [l for l in corpus.read_text().split("\n") if l and not l.startswith("#")]
    cases += [gen_history(ctx.rng, False) for _ in range(n_single)]
    cases += [gen_history(ctx.rng, True) for _ in range(n_thr)]
    for c in cases:
        th, hist = c.split(" ", 1)
        if not well_scoped(int(th), hist.split(";")):
            raise MachineryError("generator produced a history that is not well scoped: " + c)
    iout = run_family(impl, "nn_history", cases)
    mout = run_family(model, "nn_history", cases)
    fam = ctx.cov["families"].setdefault("nn_history", {"cases": 0, "agree": 0, "known": 0})
    bad = []
    nops = 0
    opkinds = {}
    for c, io, mo in zip(cases, iout, mout):
        obs, oracle = split_oracle(io)
        if mo.startswith("model-") or "PANIC" in mo:
            raise MachineryError(f"model failed on a well-scoped history (contradicts C30_inv): {mo[-80:]} on {c}")
        if obs == mo and oracle == "ok":
            ctx.note_case("nn_history " + c)
            fam["cases"] += 1
            fam["agree"] += 1
            toks = c.split(" ", 1)[1].split(";")
            nops += len(toks)
            for tk in toks:
                k = tk.split(".")[1] if tk != "|" else "|"
                opkinds[k] = opkinds.get(k, 0) + 1
        else:
            bad.append(c)
    fam["operations_executed"] = nops
    fam["operation_kinds"] = dict(sorted(opkinds.items()))
    fam["threaded_histories"] = n_thr
    fam["failing_before_shrinking"] = len(bad)
    if bad:
        shrunk = []
        for c in bad[:3]:
            shrunk.append(shrink(impl, model, c))
        ctx.correspond(impl, model, "nn_history", shrunk + bad[3:8], describe=describe)
    for c, io, mo in list(zip(cases, iout, mout))[:: max(1, len(cases) // 3)]:
        ctx.sample({"family": "nn_history", "case": c[:300], "impl": io[:300], "model": mo[:300]}, limit=4)
    ctx.cov["rule"] = (
        f"{n_single} single-thread histories of 5-200 operations and {n_thr} threaded ones (2-8 threads; a sequential phase that "
        "creates values and hands clones to the threads, then 1-4 concurrent phases of up to 25 operations per thread separated by "
        "barriers), every operation drawn from the operations allowed by Rust's ownership rules in the current state (weights favour "
        "clone/drop/make_mut); strings from 8 texts (ASCII, multi-byte, 23 bytes), file ids from {1, 2, 3, 77, 2^31, 2^62, 2^63-1}. "
        "Every history counts as non-trivial; distinct by text.  Failing histories are shrunk by deleting operations.")
    ctx.cov["exhaustive"] = False
    ctx.assumptions += [
        "the model expresses counts, liveness and aliasing; real undefined behaviour (provenance, data races, weak-memory effects of "
        "the atomics inside Arc / triomphe::Arc) is outside it: the claim is partial in that sense",
        "each operation is one atomic step of the interleaving (Arc's count updates are atomic: trusted)",
        "in concurrent phases strong counts are only compared at barriers; get_mut and from_arc_unchecked are only generated in the "
        "sequential phase (their observations depend on the schedule)",
        "the model's observations in a concurrent phase are those of the thread-by-thread interleaving",
        "hash equality is observed with std's DefaultHasher (fixed keys); the model equates it with string equality (no collisions among the 8 texts)",
    ]
    return ctx.finish(props)


def replay(ctx, path):
    r = json.load(open(path))
    model = build_model()
    impl = build_impl()
    case = r["case"]
    print("case :", json.dumps(r.get("case_readable", case)))
    print("impl :", run_family(impl, "nn_history", [case])[0])
    print("model:", run_family(model, "nn_history", [case])[0])
    return 0
