"""C23 — schema coordinates parse, print and resolve correctly."""
import json
from common import *

ALPHA = ["a", "B", "_", "0", ".", "(", ")", ":", "@", "é", " "]
NAMES = ["a", "B", "_x", "T1", "q"]


def gen_schema(rng):
    kinds = "soiuen"
    types, used = [], set()
    for _ in range(rng.randint(0, 5)):
        n = rng.choice(["T", "U", "Ab", "_x", "E1", "In", "S", "I9"])
        if n in used:
            continue
        used.add(n)
        k = rng.choice(kinds)
        attrs, au = [], set()
        if k in "oien":
            for _ in range(rng.randint(1, 3)):
                a = rng.choice(["f", "g", "a", "X", "_y"])
                if a in au:
                    continue
                au.add(a)
                args = []
                if k in "oi":
                    for x in rng.sample(["a", "b", "f", "x1"], rng.randint(0, 3)):
                        args.append(x)
                attrs.append(f"{a}({','.join(args)})")
        types.append(f"{n}:{k}:{'/'.join(attrs)}")
    dirs, du = [], set()
    for _ in range(rng.randint(0, 2)):
        d = rng.choice(["d", "dir", "T", "a"])
        if d in du:
            continue
        du.add(d)
        dirs.append(f"{d}({','.join(rng.sample(['a', 'b', 'if'], rng.randint(0, 2)))})")
    return types, dirs


def coords_for(types, dirs):
    """every existing coordinate, plus misses at every position"""
    out = []
    tn, an, argn, dn = ["T", "U", "Zz"], ["f", "a", "zz"], ["a", "b", "zz"], ["d", "zz"]
    for t in types:
        n, k, attrs = t.split(":")
        tn.append(n)
        for a in filter(None, attrs.split("/")):
            f, args = a[:-1].split("(")
            an.append(f)
            argn += [x for x in args.split(",") if x]
    for d in dirs:
        n, args = d[:-1].split("(")
        dn.append(n)
        argn += [x for x in args.split(",") if x]
    tn, an, argn, dn = (sorted(set(x)) for x in (tn, an, argn, dn))
    for t in tn:
        out.append(f"T:{t}")
        for a in an:
            out.append(f"A:{t},{a}")
            for g in argn[:4]:
                out.append(f"F:{t},{a},{g}")
    for d in dn:
        out.append(f"D:{d}")
        for g in argn:
            out.append(f"G:{d},{g}")
    return out


def run(ctx):
    props = check_props(ctx.pid)
    model = build_model()
    impl = build_impl()
    # --- parse / print: bounded-exhaustive over the coordinate alphabet
    maxlen = 4 if ctx.tier == "quick" else 6
    cases = [hexs(s) for s in all_strings(ALPHA, maxlen)]
    # structured longer strings: every form over NAMES with one-character edits
    forms = []
    for t in NAMES:
        forms += [t, "@" + t]
        for f in NAMES[:3]:
            forms += [f"{t}.{f}"]
            for a in NAMES[:3]:
                forms += [f"{t}.{f}({a}:)", f"@{t}({a}:)"]
    edits = set(forms)
    for s in forms:
        for i in range(len(s) + 1):
            for ch in [".", "(", ")", ":", "@", "é", " ", "0", "a"]:
                edits.add(s[:i] + ch + s[i:])
            if i < len(s):
                edits.add(s[:i] + s[i + 1:])
    if ctx.tier == "quick":
        edits = sorted(edits)
        edits = edits[:: max(1, len(edits) // 6000)]
    cases += [hexs(s) for s in sorted(edits)]
    cases = sorted(set(cases))
    rows = ctx.correspond(impl, model, "coord_parse", cases,
                          nontrivial=lambda c, o: o.startswith("ok") or len(c) > 2,
                          describe=unhexs, compare=lambda i, m: i == m)
    n_ok = sum(1 for _, i, _ in rows if i.startswith("ok"))
    ctx.cov["families"]["coord_parse"]["accepted"] = n_ok
    ctx.cov["families"]["coord_parse"]["exhaustive_upto_len"] = maxlen
    for c, i, m in rows:
        if i.startswith("ok"):
            ctx.sample({"family": "coord_parse", "input": unhexs(c), "impl": i, "model": m}, limit=3)
    # --- lookup over generated schemas
    nsch = 150 if ctx.tier == "quick" else 3000
    lcases = []
    for _ in range(nsch):
        types, dirs = gen_schema(ctx.rng)
        for c in coords_for(types, dirs):
            lcases.append(f"{';'.join(types) or '-'} {';'.join(dirs) or '-'} {c}")
    lcases = sorted(set(lcases))
    rows = ctx.correspond(impl, model, "coord_lookup", lcases,
                          nontrivial=lambda c, o: True)
    ctx.cov["families"]["coord_lookup"]["found"] = sum(1 for _, i, _ in rows if i.startswith("ok"))
    for c, i, m in rows[:: max(1, len(rows) // 3)]:
        ctx.sample({"family": "coord_lookup", "case": c, "impl": i, "model": m}, limit=6)
    ctx.cov["rule"] = (
        f"coord_parse: every string of length <= {maxlen} over {ALPHA} plus every one-character insertion/deletion "
        "of every coordinate form over 5 names; coord_lookup: every existing coordinate and near-miss coordinates over "
        f"{nsch} generated schemas. A case is non-trivial if it parses/resolves or is longer than one character; "
        "distinct by case text.")
    ctx.cov["exhaustive"] = False
    ctx.assumptions += [
        "lookup is modelled on schemas whose map keys equal the elements' own names (wf_schema), as Schema::parse builds them",
        "error classes of FromStr/lookup are not compared (the property speaks of success vs error only)",
    ]
    return ctx.finish(props)


def replay(ctx, path):
    r = json.load(open(path))
    model = build_model()
    impl = build_impl()
    fam, case = r["family"], r["case"]
    print("case :", r.get("case_readable", case))
    print("impl :", run_family(impl, fam, [case])[0])
    print("model:", run_family(model, fam, [case])[0])
    return 0
