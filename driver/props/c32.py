"""C32 — apollo-smith generates valid documents deterministically.

Ties (model vs implementation):
  smith_names  : DocumentBuilder::type_name() called repeatedly on one builder over a byte string, against
                 Smith/Names.v (limited_string over arbitrary's int_in_range, the suffix loop);
  smith_facts  : the mechanism-level facts of every generated document (unique names, implements closure,
                 acyclicity, inherited fields, fragment reachability) computed from the real AST in Rust and from
                 the dumped AST with Smith/Closure.v, Smith/Prune.v, Smith/DocFacts.v (two-stage tie).
Oracles (implementation alone):
  smith_document  : every byte string gives `exhausted` or a document that parses, validates as a mixed document and
                    is reproduced by a second generation; the facts the mechanism theorems predict hold;
  smith_operation : operations generated with DocumentBuilder::with_document over parsed schemas are valid.
The whole-generator statement "every returned document validates" is not a theorem; it is decided here."""
import json
import re
from common import *
from props.c33_util import gen_schema, S_BASIC

K_CONFLICT = "inherited-field-signature-conflict"
K_EXTREQ = "input-extension-adds-required-field"


K_EXTCYCLE = "input-extension-closes-nonnull-cycle"


def input_nonnull_edges(text):
    """(edges of input object definitions, edges of input object extensions): T -> U for a field `f: U!` (non-null,
    not a list) of an input object block"""
    base, ext = set(), set()
    for m in re.finditer(r"^(extend )?input (\w+)[^{\n]*\{\n(.*?)^\}", text, re.S | re.M):
        for line in m.group(3).split("\n"):
            f = re.match(r"  (\w+): (\w+)!(.*)$", line)
            if f:
                (ext if m.group(1) else base).add((m.group(2), f.group(2)))
    return base, ext


def has_cycle(edges):
    succ = {}
    for a, b in edges:
        succ.setdefault(a, set()).add(b)
    state = {}

    def visit(n):
        if state.get(n) == 1:
            return True
        if state.get(n) == 2:
            return False
        state[n] = 1
        r = any(visit(m) for m in succ.get(n, ()))
        state[n] = 2
        return r
    return any(visit(n) for n in list(succ))


def extension_required_fields(text):
    """{(T, f)}: input object field f that an `extend input T { .. }` block of the document adds with a non-null type
    and no default value"""
    out = set()
    for m in re.finditer(r"^extend input (\w+)[^{\n]*\{\n(.*?)^\}", text, re.S | re.M):
        for line in m.group(2).split("\n"):
            f = re.match(r"\s+(\w+): (\[*\w+[\]!]*)(.*)$", line)
            if f and f.group(2).endswith("!") and not f.group(3).lstrip().startswith("="):
                out.add((m.group(1), f.group(1)))
    return out
# Repaired in the repository (fixes/fix2-c32-1..4.patch), no longer known classes: an object extension repeating
# `implements` (a VIOLATION now, also through the facts oracle `duplicate-implements`), more than 500 list wrappers
# (MAX_TY_DEPTH), the todo! panic on union / custom scalar fields, the unbounded selection recursion and operations
# nested beyond the recursion limits (MAX_SELECTION_SET_DEPTH).  Their witnesses stay as ordinary cases
# (corpus/C32/dup_implements.hex, nesting.hex; OP_REGRESSIONS) that have to pass.
MAX_SELECTION_SET_DEPTH = 10    # crates/apollo-smith/src/lib.rs

HEAD = "ABCDEFGHIJKLMNOPQRSTUVWXYZabcdefghijklmnopqrstuvwxyz"
BODY = HEAD + "_0123456789"
RESERVED = ["on", "Int", "Float", "String", "Boolean", "ID", "type", "enum", "union", "extend", "scalar",
            "directive", "query", "mutation", "subscription", "schema", "interface"]


def encode_name(rng, s):
    """bytes that make limited_string(30) draw exactly s (before trimming), with random high parts"""
    out = [len(s) - 1 + 30 * rng.randint(0, 7)]
    for i, ch in enumerate(s):
        if i == 0:
            out.append(HEAD.index(ch) + 52 * rng.randint(0, 3))
        else:
            out.append(BODY.index(ch) + 63 * rng.randint(0, 3))
    return bytes(out)


def gen_bytes(rng, maxlen=4096):
    n = rng.randint(0, rng.choice([0, 1, 2, 3, 5, 8, 16, 32, 64, 128, 256, 512, 1024, 2048, maxlen]))
    k = rng.randint(0, 12)
    if k >= 10:     # low-valued bytes (0..=3, 0..=8, 0..=15), long: few definitions each, so that generation still has
        # entropy for the schema definition, fragments and SEVERAL operations (cross-operation state)
        hi = rng.choice([3, 8, 8, 15])
        m = rng.randint(min(800, maxlen), maxlen)
        return bytes(rng.randint(0, hi) for _ in range(m))
    if k >= 7:      # zero prefix, then half zero / half uniform: reaches fragments, extensions, operations
        z = rng.randint(0, 300)
        return bytes(z) + bytes(rng.randrange(256) if rng.random() < 0.5 else 0 for _ in range(min(n, 1500)))
    if k == 5:      # minimal early definitions, entropy for the later sections (fragments, operations)
        z = rng.randint(0, min(n, 400))
        return bytes(z) + bytes(rng.randrange(256) for _ in range(n - z))
    if k == 6:      # zero runs with random bursts
        out = bytearray()
        while len(out) < n:
            out += bytes(rng.randint(0, 60))
            out += bytes(rng.randrange(256) for _ in range(rng.randint(1, 12)))
        return bytes(out[:n])
    if k == 0:
        return bytes(rng.randrange(256) for _ in range(n))
    if k == 1:
        return bytes(0 if rng.random() < 0.85 else rng.randrange(256) for _ in range(n))
    if k == 2:
        return bytes(255 if rng.random() < 0.85 else rng.randrange(256) for _ in range(n))
    if k == 3:
        pat = bytes(rng.randrange(256) for _ in range(rng.randint(1, 6)))
        return (pat * (n // len(pat) + 1))[:n]
    return bytes(rng.choice([0, 1, 2, 3, 4, 5, 127, 128, 254, 255]) for _ in range(n))


def hb(b):
    return b.hex() or "-"


def oracle_parts(o):
    """-> (observation, None | (class, detail))"""
    obs, orc = split_oracle(o)
    if orc is None or orc == "ok":
        return obs, None
    p = orc.split(":")
    return obs, (p[1] if len(p) > 1 else orc, unhexs(p[2]) if len(p) > 2 and p[2] != "-" else "")


def names_cases(ctx, quick):
    rng = ctx.rng
    cases = []
    # every byte string of length <= 3 over class representatives, three calls
    reps = [0x00, 0x01, 0x1d, 0x1e, 0x27, 0x28, 0x33, 0x34, 0x3f, 0x7f, 0xfe, 0xff]
    for n in range(0, 4 if quick else 5):
        level = [b""]
        for _ in range(n):
            level = [p + bytes([r]) for p in level for r in reps]
        if len(level) > 3000:
            level = rng.sample(level, 3000)
        cases += [f"3 {hb(b)}" for b in level]
    # structured: sequences of chosen names (reserved words, trailing underscores, collisions with suffixed names)
    pool = RESERVED + ["A", "A", "A0", "A1", "A00", "B_", "B__", "B", "Zz9_", "o", "onn", "I", "IDD", "a_b", "x" * 30,
                       "q" + "_" * 29, "A10", "A9"]
    for _ in range(400 if quick else 6000):
        seq = [rng.choice(pool) for _ in range(rng.randint(1, 8))]
        b = b"".join(encode_name(rng, s) for s in seq)
        if rng.random() < 0.3:
            b = b[: rng.randint(0, len(b))]
        cases.append(f"{rng.randint(1, 12)} {hb(b)}")
    for _ in range(300 if quick else 5000):
        cases.append(f"{rng.randint(1, 40)} {hb(gen_bytes(rng, 600))}")
    return sorted(set(cases))


def op_schemas(rng, n):
    """generated schemas as they come: fields of union, custom scalar, interface and recursive object types; half of
    them with a leading `id: ID` in every type (when the bytes run out every choice is the first one: these end in a
    leaf at once, the others only at the depth bound)"""
    out = []
    for k in range(n):
        s = gen_schema(rng)
        if k % 2 == 0:
            for name in s.order:
                d = s.types[name]
                if d[0] in ("object", "interface"):
                    fields = {"id": "ID"}
                    fields.update(d[2])
                    s.types[name] = (d[0], d[1], fields)
        sdl = s.sdl()
        if not sdl.startswith("schema"):
            sdl = "schema { query: Query }\n" + sdl
        out.append(sdl)
    return out


# the witnesses of the repaired classes (panic on union / custom scalar, stack overflow on a recursive type) and
# neighbours: recursion through an interface, a union and a list, a type without any leaf field
OP_REGRESSIONS = [
    "schema { query: Query }\ntype Query { u: U }\ntype A { x: Int }\nunion U = A",
    "schema { query: Query }\ntype Query { d: Date }\nscalar Date",
    "schema { query: Query }\ntype Query { q: Query x: Int }",
    "schema { query: Query }\ntype Query { q: Query }",
    "schema { query: Query }\ntype Query { n: [Node!]! }\ninterface Node { next: Node u: U }\n"
    "type A implements Node { next: Node u: U a: A }\nunion U = A | Query",
    "schema { query: Query subscription: S }\ntype Query { q: Query }\ntype S { s: S t: [S] }",
]


def sel_depth(text):
    depth = mx = 0
    for ch in text:
        if ch == "{":
            depth += 1
            mx = max(mx, depth)
        elif ch == "}":
            depth -= 1
    return mx


def run(ctx):
    props = check_props(ctx.pid)
    model = build_model()
    impl = build_impl()
    quick = ctx.tier == "quick"
    rng = ctx.rng

    # ---- (1) names: model against DocumentBuilder::type_name
    ncases = names_cases(ctx, quick)
    rows = ctx.correspond(impl, model, "smith_names", ncases,
                          nontrivial=lambda c, o: "," in o,
                          describe=lambda c: {"calls": c.split(" ")[0], "bytes": c.split(" ")[1]})
    ctx.cov["families"]["smith_names"]["with_suffix"] = sum(1 for _, i, _ in rows if re.search(r"\d(,|$)", i))
    for c, i, m in rows[:: max(1, len(rows) // 3)]:
        ctx.sample({"family": "smith_names", "case": c[:80], "impl": i[:160]}, limit=3)

    # ---- (2) whole documents: end-to-end oracle on the implementation
    ndocs = 1500 if quick else 120000
    bcases = [hb(b"")] + [hb(bytes([x])) for x in (0, 1, 255)]
    bcases += [hb(gen_bytes(rng)) for _ in range(ndocs)]
    corpus = VERIF / "corpus" / "C32"
    fixed = []
    if corpus.exists():
        for f in sorted(corpus.glob("*.hex")):
            fixed.append(f.read_text().strip())
    # neighbours of the corpus seeds (the seeds reach rarely taken paths: nested fragment spreads, extensions that
    # add `implements`, interfaces with two parents): single-byte changes
    for seed in fixed:
        raw = bytearray(bytes.fromhex(seed)) if seed != "-" else bytearray()
        for _ in range(12 if quick else 300):
            b = bytearray(raw)
            for _ in range(rng.randint(1, 3)):
                if b:
                    b[rng.randrange(len(b))] = rng.choice([0, 1, 2, 3, 255, rng.randrange(256)])
            bcases.append(hb(bytes(b)))
    bcases = fixed + bcases
    outs = run_family(impl, "smith_document", bcases)
    fam = ctx.cov["families"].setdefault("smith_document", {"cases": 0, "exhausted": 0, "documents": 0, "valid": 0, "known": 0})
    docs = []            # (bytes_hex, text, failure)
    for c, o in zip(bcases, outs):
        fam["cases"] += 1
        obs, bad = oracle_parts(o)
        ctx.note_case("smith_document " + c, obs.startswith("doc"))
        if obs == "exhausted" and bad is None:
            fam["exhausted"] += 1
            continue
        if obs.startswith("doc ") :
            fam["documents"] += 1
            text = unhexs(obs.split(" ")[1])
            docs.append((c, text, bad))
            if bad is None:
                fam["valid"] += 1
            continue
        ctx.oracle_failures += 1
        ctx.violation({"family": "smith_document", "case": c, "impl": o[:2000],
                       "what": "document generation neither reported exhaustion nor returned a document"})

    # ---- (3) mechanism facts of every generated document that parses: two-stage tie
    parsed = [(c, t, bad) for c, t, bad in docs if not (bad and bad[0] == "parse")]
    dumps = run_family(impl, "ast_dump", [hexs(t) for _, t, _ in parsed])
    fcases, fidx = [], {}
    for (c, t, bad), du in zip(parsed, dumps):
        if du.startswith("ok "):
            fidx[len(fcases)] = (c, t, bad)
            fcases.append(f"{hexs(t)} {du.split(' ')[1]}")
    frows = ctx.correspond(impl, model, "smith_facts", fcases,
                           describe=lambda c: {"document": unhexs(c.split(' ')[0])[:4000]},
                           nontrivial=lambda c, o: True)
    facts = {}
    for k, (_, io, _) in enumerate(frows):
        facts[fidx[k][0]] = dict(kv.split("=") for kv in io.split(" "))
    agg = {}
    for f in facts.values():
        for key in ("closure", "acyclic", "fields", "conflict", "dupobj", "dupiface", "spreads"):
            agg[key + "=" + f[key]] = agg.get(key + "=" + f[key], 0) + 1
        for key in ("tydepth", "seldepth"):
            agg["max_" + key] = max(agg.get("max_" + key, 0), int(f[key]))
        agg["with_fragments"] = agg.get("with_fragments", 0) + (f["kept"] != "-")
    ctx.cov["document_facts"] = agg

    # ---- end-to-end failures: inside a known class or a violation
    for c, text, bad in docs:
        if bad is None:
            continue
        cls, detail = bad
        f = facts.get(c)
        known = None
        if cls.startswith("validate/") and f is not None:
            kinds = set(cls[len("validate/"):].split("+"))
            if kinds <= {"InvalidImplementationFieldType", "MissingInterfaceFieldArgument",
                         "ExtraRequiredImplementationFieldArgument"} and f["conflict"] == "1":
                known = K_CONFLICT
        if cls.startswith("validate/"):
            # both classes come from input object extensions and can occur together in one document
            kinds = set(cls[len("validate/"):].split("+"))
            if kinds and kinds <= {"RecursiveInputObjectDefinition", "RequiredField"}:
                msgs = detail.split(" || ")
                ok = True
                if "RequiredField" in kinds:
                    req = [m for m in msgs if m.startswith("the required field ")]
                    named = set(re.findall(r"the required field `(\w+)\.(\w+)` is not provided", detail))
                    ok = ok and bool(named) and named <= extension_required_fields(text) and len(named) == len(req)
                if "RecursiveInputObjectDefinition" in kinds:
                    base, ext = input_nonnull_edges(text)
                    ok = ok and not has_cycle(base) and has_cycle(base | ext)
                if ok and len(msgs) < 40:
                    known = K_EXTCYCLE if "RecursiveInputObjectDefinition" in kinds else K_EXTREQ
        if known and ctx.known_hit(known):
            fam["known"] += 1
            continue
        ctx.oracle_failures += 1
        ctx.violation({"family": "smith_document", "case": c, "class": cls, "diagnostic": detail[:600],
                       "document": text[:6000],
                       "what": "the generated document fails the end-to-end oracle (parse, mixed validation, "
                               "determinism) outside every known class"})
    for c, text, bad in docs[:: max(1, len(docs) // 2)]:
        ctx.sample({"family": "smith_document", "bytes": len(c) // 2, "document": text[:300]}, limit=5)

    # ---- (4) operations against parsed schemas
    schemas = ["schema { query: Query }\n" + S_BASIC]
    schemas += op_schemas(rng, 12 if quick else 150)
    ocases = []
    for s in schemas:
        for _ in range(40 if quick else 300):
            ocases.append(f"{hb(gen_bytes(rng, 512))} {hexs(s)}")
    # the repaired witnesses: no bytes (every choice is the first one), few bytes, and long byte strings that used
    # to nest operations beyond the validator's and the parser's recursion limits
    for s in OP_REGRESSIONS + schemas[:3]:
        ocases.append(f"{hb(b'')} {hexs(s)}")
        for _ in range(6 if quick else 60):
            ocases.append(f"{hb(gen_bytes(rng, 64))} {hexs(s)}")
        for _ in range(6 if quick else 60):
            m = rng.choice([600, 1200, 2400, 4096])
            pat = bytes(rng.randrange(256) for _ in range(rng.randint(1, 5)))
            b = rng.choice([bytes(rng.randrange(256) for _ in range(m)), (pat * m)[:m],
                            bytes(rng.choice([0, 1, 2, 3, 255]) for _ in range(m))])
            ocases.append(f"{hb(b)} {hexs(s)}")
    outs = run_family(impl, "smith_operation", ocases)
    ofam = ctx.cov["families"].setdefault("smith_operation", {"cases": 0, "operations": 0, "valid": 0, "none_or_exhausted": 0, "max_depth": 0, "at_depth_bound": 0, "typename_only": 0})
    for c, o in zip(ocases, outs):
        ofam["cases"] += 1
        obs, bad = oracle_parts(o)
        ctx.note_case("smith_operation " + c, obs.startswith("op"))
        sdl = unhexs(c.split(" ")[1])
        if obs.startswith("op "):
            ofam["operations"] += 1
            optext = unhexs(obs.split(" ")[1])
            d = sel_depth(optext)
            ofam["max_depth"] = max(ofam["max_depth"], d)
            ofam["at_depth_bound"] += d == MAX_SELECTION_SET_DEPTH
            ofam["typename_only"] += "__typename" in optext
            if d > MAX_SELECTION_SET_DEPTH and bad is None:
                bad = ("depth", f"selection sets nest {d} deep, the generator's bound is {MAX_SELECTION_SET_DEPTH}")
        if bad is None and (obs.startswith("op ") or obs in ("none", "exhausted")):
            ofam["valid" if obs.startswith("op ") else "none_or_exhausted"] += 1
            continue
        ctx.oracle_failures += 1
        ctx.violation({"family": "smith_operation", "case": c, "impl": o[:3000], "schema": sdl[:3000],
                       "class": bad[0] if bad else obs.split(" ")[0],
                       "diagnostic": bad[1][:600] if bad else
                       (unhexs(obs.split(" ")[1])[:600] if obs.startswith("panic ") else obs[:200]),
                       "operation": unhexs(obs.split(" ")[1])[:3000] if obs.startswith("op ") else None,
                       "what": "the operation generated against the parsed schema is not valid against it "
                               "(or the generator panicked / died / exceeded its depth bound)"})

    ctx.cov["rule"] = (
        "smith_names: every byte string of length <= 3 over 12 class representatives (size / charset boundaries, the "
        "`_` index, 0x00, 0xff), byte strings encoding sequences of chosen names (reserved words, trailing "
        "underscores, names colliding with suffixed names, 30-character names) and random bytes, 1-40 calls each; "
        f"smith_document: {ndocs} byte strings of length 0-4096 from eight distributions (uniform, mostly 0x00, mostly "
        "0xff, repeated 1-6 byte patterns, boundary bytes, zero prefix + uniform, zero runs with random bursts, zero "
        "prefix + half-zero uniform), the corpus seeds and single-byte neighbours of them plus corpus/C32; smith_facts: every generated document that "
        "parses; smith_operation: generated schemas (union, custom scalar, interface and recursive object fields) x "
        "random bytes (<= 512), plus the witnesses of the repaired panic / stack overflow / nesting classes and "
        "neighbours with no, few and 600-4096 bytes.  "
        "A document case is non-trivial if a document is returned.")
    ctx.cov["exhaustive"] = False
    ctx.assumptions += [
        "the whole-generator statement (every returned document validates) is NOT a theorem: it is decided by the "
        "end-to-end oracle over sampled bytes; the theorems cover type_name/limited_string, the implements "
        "closure/backfill model and fragment pruning",
        "the closure/backfill and pruning models are tied to the code only through facts of generated documents "
        "(ImplementsGraph, try_accept_candidate and the backfill functions are crate-private)",
        "arbitrary::Unstructured::int_in_range is modelled (Names.v nm_int_in_range) for the names tie",
        "determinism across processes (hash seeds) is the subject of C22; here two generations in one process",
    ]
    return ctx.finish(props)


def replay(ctx, path):
    r = json.load(open(path))
    model = build_model()
    impl = build_impl()
    fam, case = r["family"], r["case"]
    print("case :", json.dumps(r.get("case_readable", case), ensure_ascii=False)[:2000])
    i = run_family(impl, fam, [case])[0]
    obs, bad = oracle_parts(i)
    print("impl :", obs[:3000])
    if bad:
        print("oracle:", bad[0], "--", bad[1][:1000])
    if fam in ("smith_names", "smith_facts"):
        print("model:", run_family(model, fam, [case])[0][:3000])
    if fam == "smith_document" and obs.startswith("doc "):
        print(unhexs(obs.split(" ")[1])[:6000])
    return 0
