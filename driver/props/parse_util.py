"""Shared by C01, C02, C04, C07: generators and case plumbing for the apollo-parser PARSER model.

A case line is `<entry> <tl|-> <rl> <hex source> <items>`; `<items>` is what the real lexer yields for
(tl, source) (harness family `parse_lex_items`) — the interim tie until the lexer model is composed in.
"""
import glob
import itertools
import json
import os
from common import *

ENTRIES = ["doc", "selset", "type"]

# (i) the 28-symbol lexer alphabet of DESIGN.md C01 (class representatives)
ALPHA28 = list("aeEux_019.-+\"\\/# \t\n\r,!{") + ["﻿", "é", "中", "🚀", "\x01"]
assert len(ALPHA28) == 28

# (i') token symbols: each punctuator, a plain name, the keywords that steer a decision, an int, a string,
# a comma, a lexical error
PUNCT = ["!", "$", "&", "...", ":", "=", "@", "(", ")", "[", "]", "{", "}", "|"]
TOKSYM = PUNCT + ["a", "on", "type", "extend", "schema", "query", "fragment", "implements", "true", "null",
                  "1", '"s"', ",", "é"]


def token_strings(maxlen, syms=TOKSYM):
    yield ""
    for n in range(1, maxlen + 1):
        for t in itertools.product(syms, repeat=n):
            yield " ".join(t)


# ------------------------------------------------------------------ (ii) grammar-directed documents
class Gen:
    """Produces documents as token lists; every definition kind, directives everywhere, descriptions,
    values of every kind, variables with defaults."""

    def __init__(self, rng):
        self.r = rng

    def name(self):
        return self.r.choice(["a", "b", "Foo", "_x", "T1", "on", "type", "query", "true", "null", "input"])

    def tname(self):
        return self.r.choice(["Int", "T", "Foo", "_x"])

    def maybe(self, p=0.5):
        return self.r.random() < p

    def description(self):
        return [self.r.choice(['"d"', '"""block\n d"""', '""'])] if self.maybe(0.3) else []

    def ty(self, d=0):
        if d < 3 and self.maybe(0.35):
            t = ["["] + self.ty(d + 1) + ["]"]
        else:
            t = [self.tname()]
        if self.maybe(0.35):
            t.append("!")
        return t

    def value(self, const, d=0):
        k = self.r.randrange(10 if d < 3 else 7)
        if k == 0:
            return ["1"]
        if k == 1:
            return ["-1.5e3"]
        if k == 2:
            return ['"s"']
        if k == 3:
            return [self.r.choice(["true", "false"])]
        if k == 4:
            return ["null"]
        if k == 5:
            return [self.r.choice(["RED", "a"])]
        if k == 6:
            return ["$", self.name()] if not const else ["0"]
        if k == 7:
            out = ["["]
            for _ in range(self.r.randrange(3)):
                out += self.value(const, d + 1)
            return out + ["]"]
        out = ["{"]
        for _ in range(self.r.randrange(3)):
            out += [self.name(), ":"] + self.value(const, d + 1)
        return out + ["}"]

    def arguments(self, const):
        out = ["("]
        for _ in range(self.r.randrange(1, 3)):
            out += [self.name(), ":"] + self.value(const)
        return out + [")"]

    def directives(self, const, p=0.3):
        out = []
        while self.maybe(p):
            out += ["@", self.name()]
            if self.maybe(0.4):
                out += self.arguments(const)
            p *= 0.5
        return out

    def selection_set(self, d=0):
        out = ["{"]
        for _ in range(self.r.randrange(1, 4)):
            k = self.r.randrange(6 if d < 3 else 3)
            if k <= 2:
                if self.maybe(0.3):
                    out += [self.name(), ":"]
                out += [self.name()]
                if self.maybe(0.3):
                    out += self.arguments(False)
                out += self.directives(False)
                if d < 3 and self.maybe(0.4):
                    out += self.selection_set(d + 1)
            elif k == 3:
                out += ["...", self.r.choice(["F", "frag"])] + self.directives(False)
            else:
                out += ["..."]
                if self.maybe(0.6):
                    out += ["on", self.tname()]
                out += self.directives(False) + self.selection_set(d + 1)
        return out + ["}"]

    def variable_definitions(self):
        out = ["("]
        for _ in range(self.r.randrange(1, 3)):
            out += ["$", self.name(), ":"] + self.ty()
            if self.maybe(0.4):
                out += ["="] + self.value(True)
            out += self.directives(True)
        return out + [")"]

    def input_value(self):
        out = self.description() + [self.name(), ":"] + self.ty()
        if self.maybe(0.3):
            out += ["="] + self.value(True)
        return out + self.directives(True)

    def arguments_definition(self):
        out = ["("]
        for _ in range(self.r.randrange(1, 3)):
            out += self.input_value()
        return out + [")"]

    def fields_definition(self):
        out = ["{"]
        for _ in range(self.r.randrange(1, 3)):
            out += self.description() + [self.name()]
            if self.maybe(0.3):
                out += self.arguments_definition()
            out += [":"] + self.ty() + self.directives(True)
        return out + ["}"]

    def implements(self):
        if not self.maybe(0.4):
            return []
        out = ["implements"]
        if self.maybe(0.2):
            out.append("&")
        out.append(self.tname())
        while self.maybe(0.3):
            out += ["&", self.tname()]
        return out

    def definition(self):
        k = self.r.randrange(20)
        ext = []
        if k == 0:
            return self.selection_set()
        if k in (1, 2):
            out = [self.r.choice(["query", "mutation", "subscription"])]
            if self.maybe():
                out.append(self.name())
            if self.maybe(0.5):
                out += self.variable_definitions()
            return out + self.directives(False) + self.selection_set()
        if k == 3:
            return (["fragment", self.r.choice(["F", "frag"]), "on", self.tname()] + self.directives(False)
                    + self.selection_set())
        if k == 4:
            out = self.description() + ["schema"] + self.directives(True) + ["{"]
            for _ in range(self.r.randrange(1, 3)):
                out += [self.r.choice(["query", "mutation", "subscription"]), ":", self.tname()]
            return out + ["}"]
        if k == 5:
            out = ["extend", "schema"] + self.directives(True, 0.6)
            if self.maybe():
                out += ["{", "query", ":", self.tname(), "}"]
            return out
        if k == 6:
            return self.description() + ["scalar", self.tname()] + self.directives(True)
        if k == 7:
            return ["extend", "scalar", self.tname()] + self.directives(True, 0.9)
        if k in (8, 9):
            ext = ["extend"] if k == 9 else self.description()
            out = ext + ["type", self.tname()] + self.implements() + self.directives(True)
            if self.maybe(0.8):
                out += self.fields_definition()
            return out
        if k in (10, 11):
            ext = ["extend"] if k == 11 else self.description()
            out = ext + ["interface", self.tname()] + self.implements() + self.directives(True)
            if self.maybe(0.8):
                out += self.fields_definition()
            return out
        if k in (12, 13):
            ext = ["extend"] if k == 13 else self.description()
            out = ext + ["union", self.tname()] + self.directives(True)
            if self.maybe(0.8):
                out += ["="] + (["|"] if self.maybe(0.3) else []) + [self.tname()]
                while self.maybe(0.4):
                    out += ["|", self.tname()]
            return out
        if k in (14, 15):
            ext = ["extend"] if k == 15 else self.description()
            out = ext + ["enum", self.tname()] + self.directives(True)
            if self.maybe(0.8):
                out += ["{"]
                for _ in range(self.r.randrange(1, 3)):
                    out += self.description() + [self.r.choice(["RED", "GREEN", "a"])] + self.directives(True)
                out += ["}"]
            return out
        if k in (16, 17):
            ext = ["extend"] if k == 17 else self.description()
            out = ext + ["input", self.tname()] + self.directives(True)
            if self.maybe(0.8):
                out += ["{"]
                for _ in range(self.r.randrange(1, 3)):
                    out += self.input_value()
                out += ["}"]
            return out
        out = self.description() + ["directive", "@", self.name()]
        if self.maybe(0.4):
            out += self.arguments_definition()
        if self.maybe(0.3):
            out.append("repeatable")
        out += ["on"] + (["|"] if self.maybe(0.2) else [])
        out.append(self.r.choice(LOCATIONS))
        while self.maybe(0.4):
            out += ["|", self.r.choice(LOCATIONS)]
        return out

    def document(self, maxtok=40):
        for _ in range(50):
            out = []
            for _ in range(self.r.randrange(1, 4)):
                out += self.definition()
            if len(out) <= maxtok:
                return out
        return out[:maxtok]


LOCATIONS = ["QUERY", "MUTATION", "SUBSCRIPTION", "FIELD", "FRAGMENT_DEFINITION", "FRAGMENT_SPREAD",
             "INLINE_FRAGMENT", "VARIABLE_DEFINITION", "SCHEMA", "SCALAR", "OBJECT", "FIELD_DEFINITION",
             "ARGUMENT_DEFINITION", "INTERFACE", "UNION", "ENUM", "ENUM_VALUE", "INPUT_OBJECT",
             "INPUT_FIELD_DEFINITION"]

# one fixed document per definition kind, so that coverage of every production does not depend on the draw
FIXED_DOCS = [
    '{ a }',
    'query Q($v: [Int!]! = [1, 2] @d, $w: T = {a: {b: null}}) @d(x: $v) { a: b(x: 1.5, y: "s", z: RED, l: [[1], []], o: {k: true}) @e { c } ...F @f ... on T { d } ... @g { e } ... { f } }',
    'mutation { a } subscription S { b }',
    'fragment F on T @d { a }',
    '"desc" schema @d { query: Q mutation: M subscription: S }',
    'extend schema @d { query: Q } extend schema @e',
    '"""block""" scalar S @d extend scalar S @e',
    '"d" type T implements & A & B @d { "fd" f("ad" x: Int = 1 @d, y: [T!]!): [T]! @e g: Int } extend type T implements A extend type T @d extend type T { h: Int }',
    'interface I implements A @d { f: Int } extend interface I implements B extend interface I @d extend interface I { g: Int }',
    'union U @d = | A | B union V = A extend union U = C extend union U @d',
    'enum E @d { "vd" RED @d GREEN } extend enum E { BLUE } extend enum E @d',
    'input In @d { "fd" a: Int = 1 @d b: [In!] = [{a: 1}] } extend input In { c: Int } extend input In @d',
    '"d" directive @dir("ad" a: Int = 1 @x, b: T) repeatable on | QUERY | FIELD_DEFINITION | INPUT_FIELD_DEFINITION',
    'directive @d on QUERY | MUTATION | SUBSCRIPTION | FIELD | FRAGMENT_DEFINITION | FRAGMENT_SPREAD | INLINE_FRAGMENT | VARIABLE_DEFINITION | SCHEMA | SCALAR | OBJECT | FIELD_DEFINITION | ARGUMENT_DEFINITION | INTERFACE | UNION | ENUM | ENUM_VALUE | INPUT_OBJECT | INPUT_FIELD_DEFINITION',
    'schema extend type',
    '# c\n{ a, b ,, c # d\n }\n',
    '﻿{ a }',
]


def render(tokens, rng=None):
    """join tokens; with an rng, vary the separators (space, newline, comma, comment, nothing where legal)"""
    if rng is None:
        return " ".join(tokens)
    out = []
    for t in tokens:
        out.append(t)
        out.append(rng.choice([" ", " ", " ", "\n", ", ", " # c\n", "\t", " ,"]))
    return "".join(out)


REPLACEMENTS = PUNCT + ["é", '"unterminated', "a", "1"]


def token_mutations(tokens):
    """delete / duplicate / swap / replace-by-each-punctuator (and a lexical error, an unterminated string,
    a name, a number) at every position"""
    n = len(tokens)
    for i in range(n):
        yield tokens[:i] + tokens[i + 1:]
        yield tokens[:i] + [tokens[i]] + tokens[i:]
        if i + 1 < n:
            yield tokens[:i] + [tokens[i + 1], tokens[i]] + tokens[i + 2:]
        for r in REPLACEMENTS:
            if r != tokens[i]:
                yield tokens[:i] + [r] + tokens[i + 1:]
    for i in range(n + 1):
        yield tokens[:i]          # truncation


def simple_tokens(src):
    """split a source rendered with single spaces back into its tokens (only for our own FIXED_DOCS)"""
    out, cur, instr = [], "", False
    i = 0
    while i < len(src):
        c = src[i]
        if instr:
            cur += c
            if c == '"' and not cur.endswith('\\"'):
                if cur.startswith('"""'):
                    if cur.endswith('"""') and len(cur) >= 6:
                        out.append(cur); cur = ""; instr = False
                else:
                    out.append(cur); cur = ""; instr = False
        elif c == '"':
            if cur:
                out.append(cur)
            cur = '"""' if src.startswith('"""', i) else '"'
            i += len(cur) - 1
            instr = True
        elif c in " \n\t,":
            if cur:
                out.append(cur); cur = ""
        elif src.startswith("...", i):
            if cur:
                out.append(cur); cur = ""
            out.append("..."); i += 2
        elif c in "!$&:=@()[]{}|":
            if cur:
                out.append(cur); cur = ""
            out.append(c)
        elif c == "#":
            j = src.find("\n", i)
            i = len(src) if j < 0 else j
        else:
            cur += c
        i += 1
    if cur:
        out.append(cur)
    return out


def test_data_files():
    repo = os.environ.get("VERIF_REPO", "/repo")
    out = []
    for f in sorted(glob.glob(repo + "/crates/apollo-parser/test_data/parser/**/*.graphql", recursive=True)):
        try:
            out.append(open(f, encoding="utf-8").read())
        except Exception:
            pass
    return out


# ------------------------------------------------------------------ (iii) deep nests
def deep_nests(depth):
    """(entry, source, nest) for each recursive construct nested `depth` times"""
    d = depth
    out = []
    out.append(("doc", "{ " + "a { " * d + "a " + "} " * d + "}", d + 1))
    out.append(("doc", "query { a(x: " + "[" * d + "1" + "]" * d + ") }", d + 1))
    out.append(("doc", "type T { f(a: T = " + "{a: " * d + "0" + "}" * d + "): Int }", d))
    out.append(("doc", "type T { f: " + "[" * d + "Int" + "]" * d + " }", d))
    out.append(("doc", "query($v: " + "[" * d + "Int" + "!]" * d + ") { a }", max(d, 1)))
    out.append(("doc", "{ a(x: " + "[{a: " * d + "1" + "}]" * d + ") }", 2 * d + 1))
    out.append(("selset", "a { " * d + "a " + "} " * d, d + 1))
    out.append(("selset", "{ " + "a { " * d + "a " + "} " * d + "}", d + 1))
    out.append(("type", "[" * d + "Int" + "]" * d, d))
    out.append(("type", "[" * d + "Int" + "!]" * d + "!", d))
    return out


RL_VALUES = [0, 1, 2, 3, 31, 32, 499, 500, 501]


def deep_cases():
    out = []
    for rl in RL_VALUES:
        for depth in {max(rl - 1, 0), rl, rl + 1}:
            for entry, src, _ in deep_nests(depth):
                out.append((entry, None, rl, src))
                if depth <= 3:
                    continue
                # unbalanced variants: the closers missing / one too many
                if entry == "doc" and src.startswith("{ a {"):
                    out.append((entry, None, rl, "{ " + "a { " * depth))
                    out.append((entry, None, rl, src + " }"))
    return out


# ------------------------------------------------------------------ plumbing
def with_items(impl, tuples):
    """tuples (entry, tl, rl, src) -> case lines `<entry> <tl|-> <rl> <hex source> <items>`, the items being
    what the REAL lexer yields for (tl, source): the parser model runs on those (fast; isolates the parser
    model from the lexer model).  `composed_sample` below runs the lexer model and the parser model composed."""
    tuples = list(dict.fromkeys(tuples))
    keys = list(dict.fromkeys((tl, src) for _, tl, _, src in tuples))
    lines = [f"{'-' if tl is None else tl} {hexs(src)}" for tl, src in keys]
    outs = run_family(impl, "parse_lex_items", lines)
    items = {}
    for k, o in zip(keys, outs):
        if " " in o or o.startswith("panic") or o.startswith("died") or o == "timeout":
            raise MachineryError(f"parse_lex_items failed on {k!r}: {o[:200]}")
        items[k] = o
    return [f"{e} {'-' if tl is None else tl} {rl} {hexs(src)} {items[(tl, src)]}" for e, tl, rl, src in tuples]


def composed_sample(ctx, cases, limit=3000, maxlen=160):
    """a sample of the cases WITHOUT the items field: the model runner then lexes the source itself
    (Lex/Fun.v lex_all / lex_limited composed with Parse/), so the composition is tied to the code as well"""
    short = [" ".join(c.split(" ")[:4]) for c in cases if len(c.split(" ")[3]) <= 2 * maxlen]
    short = list(dict.fromkeys(short))
    if len(short) > limit:
        short = short[:: max(1, len(short) // limit)]
    return short


def split_case(case):
    f = case.split(" ")
    e, tl, rl, hx = f[:4]
    return e, (None if tl == "-" else int(tl)), int(rl), unhexs(hx), (f[4] if len(f) > 4 else None)


def describe(case):
    e, tl, rl, src, _ = split_case(case)
    return f"entry={e} token_limit={tl} recursion_limit={rl} source={src!r}"


def first_item(items):
    if items == "-":
        return None
    return items.split(",", 1)[0].split(".")


# known-finding classes (the same predicates as Parse/Known.v)
def d1_type_entry(case):
    """Known_D1: the type entry and the first item the lexer yields is not a Name or `[` token"""
    e, _, _, _, items = split_case(case)
    f = first_item(items)
    return e == "type" and not (f is not None and f[0] in ("Name", "LBracket"))


def d2_fieldset_entry(case):
    """Known_D2: the selection-set entry and the first item is a lexical error (with text)"""
    e, _, _, _, items = split_case(case)
    f = first_item(items)
    return e == "selset" and f is not None and f[0] == "!lex" and f[1] != "-"


def replay_generic(ctx, path, families):
    r = json.load(open(path))
    model = build_model()
    impl = build_impl()
    fam, case = r.get("family"), r.get("case")
    if not fam:
        print(json.dumps(r, indent=1))
        return 0
    print("case :", r.get("case_readable", case))
    print("impl :", run_family(impl, fam, [case])[0])
    print("model:", run_family(model, fam, [case])[0])
    return 0


def struct_report(ctx, impl, model, cases, limit=4000):
    """informational: full node structure, model vs implementation; never part of a verdict"""
    cases = cases[:: max(1, len(cases) // limit)]
    io = run_family(impl, "parse_struct", cases)
    mo = run_family(model, "parse_struct", cases)
    diff = [(c, a, b) for c, a, b in zip(cases, io, mo) if a != b]
    ctx.cov["node_structure_informational"] = {
        "cases": len(cases), "agree": len(cases) - len(diff),
        "first_differences": [{"case": describe(c), "impl": a[:300], "model": b[:300]} for c, a, b in diff[:3]],
        "note": "full tree nesting compared for information only; no verdict depends on it",
    }
