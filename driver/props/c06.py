"""C06 — string literals decode to their spec-defined values."""
import itertools
import json
from common import *

BOM = "﻿"
ALPHA = ["a", " ", "\t", "\n", "\r", '"', "\\", "u", "0", "F", "é", BOM]
KNOWN_CLASS = "quoted_leading_line_terminator"


def quoted(body):
    return '"' + body + '"'


def block(body):
    return '"""' + body + '"""'


def norm(line):
    return "panic" if line.startswith("panic") else line


def classify(case, iobs, mobs):
    """known-finding class of a disagreeing case, or None"""
    lit = unhexs(case)
    if (lit.startswith('"') and not lit.startswith('"""') and len(lit) >= 3 and lit[1] in "\n\r"
            and iobs.startswith("ok ") and mobs.startswith("quirk ") and iobs[3:] == mobs[6:]):
        return KNOWN_CLASS
    return None


def gen_escapes():
    """quoted bodies around every kind of escape sequence, valid and invalid"""
    out = []
    simple = ['\\"', "\\\\", "\\/", "\\b", "\\f", "\\n", "\\r", "\\t"]
    bad = ["\\a", "\\u", "\\U0041", "\\ ", "\\é", "\\0", "\\'", "\\\n", "\\x41"]
    d1 = "017dDeEfF"
    d2 = "0789aBfF"
    d3 = "09aFg"
    d4 = ["0", "9", "A", "f", "G", '"', ""]
    uni = ["\\u" + a + b + c + d for a in d1 for b in d2 for c in d3 for d in d4]
    for e in simple + bad + uni:
        out += [e, "x" + e + "y", e + e]
    for a, b in itertools.product(simple + bad[:4] + ["\\u0041", "\\uD7FF", "\\ud800", "\\uDFFF", "\\uE000", "\\uFFFF", "\\u00e9", "\\u12"],
                                  repeat=2):
        out.append(a + "é" + b)
    # truncated escapes at the end of the body, and escapes followed by hex-looking text
    for e in ["\\u0041", "\\uFFFF", "\\u000A", "\\u000d", "\\u0022", "\\u005C"]:
        for k in range(2, len(e)):
            out.append("ab" + e[:k])
        out += [e + "0", e + "F" * 4, "\\" + e, "\\\\" + e]
    return out


INDENTS = ["", " ", "  ", "\t", " \t", "\t ", "    ", "\t\t"]
CONTENTS = ["", "", "a", "a b", "é", BOM + "x", '\\"""', '\\"""a', 'a\\"""', '"', '""', "a  ", "\\", " ", "  ", "\t",
            "b\t", '\\\\"""', BOM, " x", "x y", '"a"', "a\\nb"]
TERMS = ["\n", "\r\n", "\r", "\n", "\n\r"]


def gen_indented(rng, n):
    out = []
    for _ in range(n):
        k = rng.randint(1, 6)
        s = ""
        for i in range(k):
            s += rng.choice(INDENTS) + rng.choice(CONTENTS)
            if i + 1 < k:
                s += rng.choice(TERMS)
        out.append(s)
    return out


def gen_indented_systematic():
    """every 3-line text over a small set of lines, every terminator: reaches each indentation rule"""
    lines = ["", " ", "   ", "a", " a", "  a", "\ta", " \ta", '  \\"""', "  é", " " + BOM]
    out = []
    for a, b, c in itertools.product(lines, repeat=3):
        for t in ["\n", "\r\n", "\r"]:
            out.append(a + t + b + t + c)
    for a, b in itertools.product(lines, repeat=2):
        for t1, t2 in itertools.product(["\n", "\r\n", "\r"], repeat=2):
            out.append(a + t1 + b + t2)
            out.append(t1 + a + t2 + b)
    return out


REDUCED = ["a", " ", "\n", "\r", '"', "\\", "u", "0"]


def run(ctx):
    props = check_props(ctx.pid)
    model = build_model()
    impl = build_impl()
    maxlen = 5 if ctx.tier == "quick" else 6
    stats = {k: 0 for k in ("impl_valid", "impl_invalid", "impl_panic", "valid_quoted", "valid_block",
                            "valid_block_multiline_dedented", "valid_with_unicode_escape")}
    want = [lambda t: t.startswith('"""') and "\r\n" in t, lambda t: "\\u" in t and not t.startswith('"""'),
            lambda t: t.startswith('"""') and '\\"""' in t]
    sampled = set()

    def process(lits):
        """one batch of literals through both runners (batches keep the thorough tier's memory bounded)"""
        cases = sorted(hexs(x) for x in lits)
        rows = ctx.correspond(impl, model, "str_decode", cases, classify=classify,
                              nontrivial=lambda c, o: o.startswith("ok"),
                              describe=lambda c: repr(unhexs(c)),
                              compare=lambda i, m: norm(i) == norm(m))
        for c, i, m in rows:
            if i == "invalid":
                stats["impl_invalid"] += 1
                continue
            if i.startswith("panic"):
                stats["impl_panic"] += 1
                continue
            if not i.startswith("ok"):
                continue
            stats["impl_valid"] += 1
            t = unhexs(c)
            if t.startswith('"""'):
                stats["valid_block"] += 1
                if ("\n" in t or "\r" in t) and len(unhexs(i[3:])) + 6 < len(t):
                    stats["valid_block_multiline_dedented"] += 1
            else:
                stats["valid_quoted"] += 1
                if "\\u" in t:
                    stats["valid_with_unicode_escape"] += 1
            for k, w in enumerate(want):
                if k not in sampled and len(i) > 6 and w(t):
                    sampled.add(k)
                    ctx.sample({"family": "str_decode", "literal": t, "impl": i, "model": m}, limit=6)

    # ---- generated (non-exhaustive) part, together with the short exhaustive bodies
    lits = set()
    esc = gen_escapes()
    for b in esc:
        lits.add(quoted(b))
        lits.add(block(b))
    ind = gen_indented_systematic() + gen_indented(ctx.rng, 4000 if ctx.tier == "quick" else 60000)
    for b in ind:
        lits.add(block(b))
        # the same text inside quotes is invalid unless it has no raw terminator or quote
        lits.add(quoted(b))
    # not-a-single-token shapes
    for x in ['"a" ', ' "a"', '"a""b"', '"a"b', "a", '"', '""', '"""', '""""', '"""""', '""""""', '"""""""', '"a', '"""a', '"""a""',
              '"""a"" "', '"a\\"', '"""a\\"""', '"""a\\""""', '"""\\"""', "", '"\ud7ff"', '"\U0001F600"',
              '"""\U0001F600\n  \U0001F600"""']:
        lits.add(x)
    # ---- bounded-exhaustive part
    n_exh = 0
    if ctx.tier == "quick":
        for b in all_strings(ALPHA, maxlen):
            lits.add(quoted(b))
            lits.add(block(b))
            n_exh += 2
        process(lits)
    else:
        for b in [""] + ALPHA:
            lits.add(quoted(b))
            lits.add(block(b))
        process(lits)
        # one batch per first character: full alphabet to length maxlen, reduced alphabet one longer
        for first in ALPHA:
            batch = set()
            for suf in all_strings(ALPHA, maxlen - 1):
                if suf:
                    batch.add(quoted(first + suf))
                    batch.add(block(first + suf))
            n_exh += len(batch)
            process(batch)
        for first in REDUCED:
            batch = set()
            for suf in itertools.product(REDUCED, repeat=maxlen):
                b = first + "".join(suf)
                batch.add(quoted(b))
                batch.add(block(b))
            process(batch)
    fam = ctx.cov["families"]["str_decode"]
    fam.update(stats)
    fam["exhaustive_literals"] = n_exh
    fam["exhaustive_upto_body_len"] = maxlen
    fam["escape_generator"] = len(esc)
    fam["indented_generator"] = len(ind)
    extra = "" if ctx.tier == "quick" else f"; and every body of length {maxlen + 1} over the 8 characters {[repr(a) for a in REDUCED]}"
    ctx.cov["rule"] = (
        f"str_decode: every body of length <= {maxlen} over the 12-character alphabet {[repr(a) for a in ALPHA]}, as a quoted "
        f"and as a block literal{extra}; every kind of escape (valid, invalid, truncated; 4-digit combinations around the "
        "surrogate range and hex/non-hex boundaries) alone, embedded and doubled; systematic 2- and 3-line indented "
        "texts with every line terminator plus a seeded sample of 1-6 line texts with mixed tab/space indentation, "
        "whitespace-only lines, escaped triple quotes, BOM and non-ASCII; not-a-single-token shapes. "
        "The literal is valid when the real lexer makes exactly one error-free StringValue token of it; "
        "a case is non-trivial when it is valid; distinct by literal text.")
    ctx.cov["exhaustive"] = f"all bodies up to length {maxlen} over the 12-character alphabet"
    ctx.assumptions += [
        "literals rejected by the lexer are only compared as `invalid` (no value is observable through the public API)",
        "the compiler's conversion (ast/from_cst.rs) is covered by the oracle only: it must store the CST-level value in "
        "argument values, variable and input-field defaults and the descriptions of all describable definitions",
        "panic messages are not compared",
        "Str/Literal.v is this property's own statement of lexical validity; it is compared with the real lexer on every "
        "case, not derived from the lexer model of C03",
    ]
    return ctx.finish(props)


def replay(ctx, path):
    r = json.load(open(path))
    model = build_model()
    impl = build_impl()
    fam, case = r["family"], r["case"]
    print("case :", r.get("case_readable", case))
    print("impl :", run_family(impl, fam, [case])[0])
    print("model:", run_family(model, fam, [case])[0])
    return 0
