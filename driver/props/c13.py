"""C13 — building from several sources is compositional; extension placement does not matter."""
import json
import re
from common import *
from props.sch_util import *

EXEC_SCHEMA = "type Query { a: Int b: String q: Query } type Mutation { m: Int }"
EXEC_ITEMS = [
    "query A { a }", "query A { b }", "query B { q { a } }", "{ a }", "{ b }", "query { a b }",
    "fragment F on Query { a }", "fragment F on Query { b }", "fragment G on Query { ...F }",
    "mutation M { m }", "subscription S { a }", "query C { ...F }", "query D { undefinedField }",
    "type T { x: Int }", "mutation { m }", "query E($v: Int) { a }",
]


def split_chunks(rng, items, k):
    """k non-empty chunks at definition boundaries"""
    k = max(1, min(k, len(items)))
    cuts = sorted(rng.sample(range(1, len(items)), k - 1)) if k > 1 else []
    out, prev = [], 0
    for c in cuts + [len(items)]:
        out.append(items[prev:c])
        prev = c
    return out


def run(ctx):
    props = check_props(ctx.pid)
    model = build_model()
    impl = build_impl()
    setup_builtin(impl)
    # hypothesis bi_b0_ok of C13_extension_commutes, evaluated on the real built-in definitions
    b0ok = run_family(model, "sb_b0_ok", ["-"])[0]
    ctx.cov["bi_b0_ok_on_real_builtins"] = b0ok == "b0_ok"
    if b0ok != "b0_ok":
        ctx.violation({"what": "the built-in definitions of SchemaBuilder::new() no longer satisfy bi_b0_ok: the hypothesis of "
                               "C13_extension_commutes does not hold for the real initial state", "observed": b0ok}, no_input=True)
    n = 1500 if ctx.tier == "quick" else 15000
    raw = []
    for name, text in corpus_texts("C13"):
        # corpus file: chunks separated by a line `---`, optionally followed by `=== moved` and the moved text
        main, _, moved = text.partition("\n=== moved\n")
        chunks = [c for c in main.split("\n---\n")]
        for cfg in ("-", "a"):
            raw.append(("corpus:" + name, cfg, chunks, moved.strip() or None))
    moved_count = 0
    for fl, cfg, items in gen_histories(ctx, n):
        chunks = [sch_gen.text_of(c) for c in split_chunks(ctx.rng, items, ctx.rng.randint(1, 4))]
        mv = sch_gen.movable(items)
        moved = None
        if mv:
            i, j = ctx.rng.choice(mv)
            moved = sch_gen.text_of(sch_gen.move_extension(items, i, j))
            moved_count += 1
        raw.append((fl, cfg, chunks, moved))
    texts = []
    for _, _, chunks, moved in raw:
        texts += chunks + ([moved] if moved else [])
    asts = iter(ast_stage(impl, texts))
    lines, meta, syntax = [], [], 0
    for fl, cfg, chunks, moved in raw:
        ca = [next(asts) for _ in chunks]
        ma = next(asts) if moved else None
        if any(a is None for a in ca) or (moved and ma is None):
            syntax += 1
            continue
        lines.append(" ".join([cfg, str(len(chunks))] + [hexs(c) for c in chunks] + [hexs(moved) if moved else "-"]
                              + ca + [ma if moved else "-"]))
        meta.append((fl, cfg, chunks, moved))

    def desc(c):
        f = c.split(" ")
        k = int(f[1])
        out = f"cfg={f[0]}\n" + "\n--- next source ---\n".join(unhexs(h) for h in f[2:2 + k])
        if f[2 + k] != "-":
            out += "\n=== with one extension moved ===\n" + unhexs(f[2 + k])
        return out

    rows = ctx.correspond(impl, model, "c13_three", lines, describe=desc, nontrivial=lambda c, o: True,
                          compare=lambda i, m: i == re.sub(r"^docok=\d ", "", m))
    bad_docs = [(c, i, m) for c, i, m in rows if m.startswith("docok=0")]
    ctx.cov["bi_doc_ok_false"] = len(bad_docs)
    for c, i, m in bad_docs[:2]:
        ctx.violation({"family": "c13_three", "case": c, "case_readable": desc(c), "impl": i, "model": m,
                       "what": "the parser produced a schema definition without root operations: hypothesis bi_doc_ok of "
                               "C13_extension_commutes does not hold for this input"})
    fam = ctx.cov["families"]["c13_three"]
    fam["with_moved_extension"] = sum(1 for _, _, _, m in meta if m)
    fam["several_sources"] = sum(1 for _, _, ch, _ in meta if len(ch) > 1)
    fam["with_build_errors"] = sum(1 for _, i, _ in rows if not i.startswith("A: errs=[] "))
    fam["adopt_orphan_extensions"] = sum(1 for _, cfg, _, _ in meta if "a" in cfg)
    fam["moved_kind_mismatch"] = sum(1 for (_, _, _, m), (_, i, _) in zip(meta, rows) if m and "TypeExtensionKindMismatch" in i)
    for (fl, cfg, ch, mv), (c, i, m) in list(zip(meta, rows))[:: max(1, len(rows) // 3)]:
        ctx.sample({"family": "c13_three", "flavour": fl, "cfg": cfg, "sources": ch, "moved": mv, "impl": i[:200]}, limit=4)
    # --- executable documents from several sources vs their concatenation (implementation-only oracle)
    ne = 250 if ctx.tier == "quick" else 5000
    elines = []
    for _ in range(ne):
        items = [ctx.rng.choice(EXEC_ITEMS) for _ in range(ctx.rng.randint(1, 6))]
        chunks = [[x for x in c] for c in split_chunks(ctx.rng, items, ctx.rng.randint(1, 3))]
        elines.append(" ".join([hexs(EXEC_SCHEMA), str(len(chunks))] + [hexs("\n".join(c)) for c in chunks]))
    elines = sorted(set(elines))
    edesc = lambda c: "\n--- next source ---\n".join(unhexs(h) for h in c.split(" ")[2:])
    rows = ctx.correspond(impl, model, "c13_exec", elines, describe=edesc, nontrivial=lambda c, o: True,
                          compare=lambda i, m: True)
    fam = ctx.cov["families"]["c13_exec"]
    fam["with_errors"] = sum(1 for _, i, _ in rows if "errs=[]" not in i)
    fam["note"] = "implementation-only oracle (no model of the executable builder): builder over k sources vs parse of the concatenation"
    ctx.cov["syntax_errors_skipped"] = syntax
    ctx.cov["rule"] = (
        f"corpus/C13 plus {n} generated schema histories (sch_gen.py) split into 1-4 sources at definition boundaries; each is built "
        "(A) source by source, (B) from the concatenated text, (C) with one extension moved to the other side of the first "
        "definition of its target when nothing in between touches that target. Model and implementation are compared on A and C "
        "(schema with origins and key orders up to extension-id renaming, sorted error classes); the oracle on the implementation "
        "requires A = B = C including the sorted messages. c13_exec: an executable document from 1-3 sources vs the concatenation "
        f"({ne} draws over {len(EXEC_ITEMS)} definitions incl. collisions and anonymous operations), implementation only.")
    ctx.cov["exhaustive"] = False
    ctx.assumptions += [
        "error classes are read off the Debug form of the (private) BuildError and the back-quoted names of its message; compared sorted",
        "sources are split at definition boundaries (the text-level side condition of concatenation is part of the generator)",
        "the executable builder has no Gallina model; its compositionality is checked on the implementation only",
    ]
    return ctx.finish(props)


def replay(ctx, path):
    r = json.load(open(path))
    model = build_model()
    impl = build_impl()
    setup_builtin(impl)
    fam, case = r["family"], r["case"]
    print("case :", r.get("case_readable", case))
    print("impl :", run_family(impl, fam, [case])[0])
    print("model:", run_family(model, fam, [case])[0])
    return 0
