"""C09 — string values and descriptions survive serialization."""
import json
from common import *

BOM = "﻿"
ALPHA = ["a", " ", "\t", "\n", "\r", '"', "\\", "é", "\x01", "\x7f", BOM]
CFGS = [0, 1, 2, 3, 4, 5]
# context -> depths that make a difference
CONTEXTS = {
    "argval": [0, 1, 2, 3], "dirval": [0, 2], "vardef": [0, 1, 3], "argdef_default_single": [0, 2],
    "value": [0, 1, 2, 3], "input_default": [0, 1, 2, 3], "argdef_default": [0, 1, 2, 3],
    "desc_type": [0], "desc_interface": [0], "desc_union": [0], "desc_scalar": [0], "desc_input": [0],
    "desc_enum": [0], "desc_schema": [0], "desc_directive": [0],
    "desc_field": [0], "desc_ifield": [0], "desc_enumval": [0], "desc_inputfield": [0], "desc_dirarg": [0],
    "desc_arg": [0],
}

SPECIALS = [
    "", "a", "x" * 70, "x" * 71, "é" * 35, "é" * 36, "x" * 71 + "\ny", "x" * 69 + '"', "x y " * 30,
    'a"', "a\\", 'a\nb"', "a\nb\\", '"', "\\", '""', '"a', "\\a", 'a"\nb', "a\\\nb",
    "\na", "a\n", " \na", "a\n ", "a\n\nb", "a\n \nb", "a\n\t\n\nb", "\n", "\n\n", " ", "a\n\n",
    '"""', 'a"""b', '""""', '"""""', '""""""', '\\"""', 'a\\"""', 'a\\\\"""b', '"""\n"""', 'a\n"""', 'a\n"""b\n""',
    '\\""', '"\\""', 'a ""', 'a\n""', 'a\n"',
    "  a\n b", "a\n  b", " a\n  b", "\ta\n\tb", " a\n\n b", "a\n  b\n    c\n", "a\n b\n", "a \n b ", "a\n " + BOM + "b",
    "a\r\nb", "a\rb", "\r", "a\n\rb", "é\nü", BOM + "\n" + BOM, "\x01\n\x02", "a\n\x7f", "a\x00b", "a\nb\x00",
    "\U0001F600", "\U0001F600\n  \U0001F600", "line one\nline two\n\n  indented\nlast \"quoted\" \\ end",
]


def classify(case, iobs, mobs):
    return None


def run(ctx):
    props = check_props(ctx.pid)
    model = build_model()
    impl = build_impl()
    maxlen = 5 if ctx.tier == "quick" else 6
    stats = {"printed_as_block_string": 0, "printed_as_multi_line_block_string": 0, "printed_as_quoted_string": 0}
    block_ctx = set()

    def process(cases):
        cases = sorted(set(cases))
        rows = ctx.correspond(impl, model, "ser_string", cases, classify=classify,
                              nontrivial=lambda c, o: True,
                              describe=lambda c: " ".join(c.split(" ")[:3]) + " " + repr(unhexs(c.split(" ")[3])))
        for c, i, m in rows:
            if i.startswith("lit 222222") and len(i) >= 16:
                stats["printed_as_block_string"] += 1
                parts = c.split(" ")
                block_ctx.add(parts[1])
                if i.startswith("lit 2222220a"):
                    stats["printed_as_multi_line_block_string"] += 1
                    if parts[1] in ("desc_arg", "input_default") and parts[0] == "3":
                        ctx.sample({"family": "ser_string", "case": " ".join(parts[:3]), "string": unhexs(parts[3]),
                                    "printed": unhexs(i[4:])}, limit=3)
            else:
                stats["printed_as_quoted_string"] += 1

    # every context, configuration and depth: the special strings and a seeded sample of the exhaustive set
    # (biased to strings with a line feed, the only ones a non-description position prints as a block string)
    base = list(all_strings(ALPHA, 5))
    with_lf = [s for s in base if "\n" in s]
    per = 25 if ctx.tier == "quick" else 400
    cases = []
    for c, depths in CONTEXTS.items():
        for cfg in CFGS:
            for d in depths:
                sample = ctx.rng.sample(with_lf, per) + ctx.rng.sample(base, per // 3)
                for s in SPECIALS + sample:
                    cases.append(f"{cfg} {c} {d} {hexs(s)}")
    n_ctx = len(cases)
    # the bare literal: a value on its own and a description at level 0, default configuration, exhaustive
    n_bare = 0
    if ctx.tier == "quick":
        for s in base:
            h = hexs(s)
            cases.append(f"0 value 0 {h}")
            cases.append(f"0 desc_scalar 0 {h}")
            n_bare += 2
        process(cases)
    else:
        for s in [""] + ALPHA:
            cases.append(f"0 value 0 {hexs(s)}")
            cases.append(f"0 desc_scalar 0 {hexs(s)}")
        process(cases)
        for first in ALPHA:       # one batch per first character keeps memory bounded
            batch = []
            for suf in all_strings(ALPHA, maxlen - 1):
                if suf:
                    h = hexs(first + suf)
                    batch.append(f"0 value 0 {h}")
                    batch.append(f"0 desc_scalar 0 {h}")
                    # the same strings as a description two levels deep with a 4-space prefix and initial level 3
                    batch.append(f"3 desc_arg 0 {h}")
            n_bare += len(batch)
            process(batch)
    fam = ctx.cov["families"]["ser_string"]
    fam.update(stats)
    fam["bare_literal_cases"] = n_bare
    fam["exhaustive_upto_len"] = maxlen
    fam["in_context_cases"] = n_ctx
    fam["contexts"] = len(CONTEXTS)
    fam["configurations"] = len(CFGS)
    fam["block_in_contexts"] = sorted(block_ctx)
    ctx.cov["rule"] = (
        f"ser_string: every string of length <= {maxlen} over {[repr(a) for a in ALPHA]} printed as a bare value and as a "
        "description under the default configuration; in each of the 21 contexts (argument / directive-argument value, "
        "variable default, input-field and argument-definition default inside 0-3 lists, description of every "
        "describable definition, field, enum value, input field, argument) x 6 configurations x nesting depths: "
        f"{len(SPECIALS)} special strings (the >70 byte rule, trailing quote / backslash, leading / trailing blank "
        "lines, triple quotes, common indentation, CR, non-BMP) and a seeded sample of the exhaustive set. "
        "Every case is non-trivial; distinct by case text.")
    ctx.cov["exhaustive"] = f"bare literal: all strings up to length {maxlen} over the 11-character alphabet"
    ctx.assumptions += [
        "the indent level / single-line mode of each document position is a table shared by harness/src/c09.rs and "
        "coq/ocaml/fam_c09.ml; the document printer around the string (C08) is exercised, not modelled",
        "indent prefixes are whitespace (tab / space) as in the six configurations; the theorems assume it (ws_prefix)",
        "the printed literal is compared exactly: a change of the printed form that still round-trips is reported as a "
        "correspondence failure (the theorems are about the model's printed form)",
    ]
    return ctx.finish(props)


def replay(ctx, path):
    r = json.load(open(path))
    model = build_model()
    impl = build_impl()
    fam, case = r["family"], r["case"]
    print("case :", r.get("case_readable", case))
    print("impl :", run_family(impl, fam, [case])[0])
    print("model:", run_family(model, fam, [case])[0])
    return 0
