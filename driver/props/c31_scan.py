"""Shared-state inventory for C31: every `static`, OnceLock/LazyLock/Lazy/OnceCell, Cell/RefCell/UnsafeCell,
Mutex/RwLock/Condvar, Atomic*, thread_local!, `unsafe impl Send/Sync` in crates/*/src (tests excluded).
An item is identified by (file, code line with whitespace collapsed), not by line number."""
import re
from pathlib import Path

PATTERNS = [
    ("static", re.compile(r"\bstatic\s+(?:mut\s+)?[A-Za-z_][A-Za-z0-9_]*\s*:")),
    ("once", re.compile(r"\b(?:OnceLock|LazyLock|OnceCell|LazyCell|Lazy)\b\s*(?:<|::)")),
    ("cell", re.compile(r"\b(?:Cell|RefCell|UnsafeCell)\b\s*(?:<|::)")),
    ("lock", re.compile(r"\b(?:Mutex|RwLock|Condvar)\b\s*(?:<|::)")),
    ("atomic", re.compile(r"\bAtomic(?:U|I)(?:8|16|32|64|size)\b|\bAtomicBool\b|\bAtomicPtr\b")),
    ("thread_local", re.compile(r"\bthread_local!")),
    ("unsafe_send_sync", re.compile(r"\bunsafe\s+impl\b.*\b(?:Send|Sync)\b")),
]


def strip_line(line):
    # drop // comments (good enough: no string literal in these crates contains the patterns and "//")
    i = line.find("//")
    if i >= 0:
        line = line[:i]
    return " ".join(line.split())


def scan(repo):
    items = []
    repo = Path(repo)
    for f in sorted(repo.glob("crates/*/src/**/*.rs")):
        rel = f.relative_to(repo).as_posix()
        if "/tests/" in rel or rel.endswith("/tests.rs") or rel.endswith("_tests.rs") or "/test_" in rel:
            continue
        depth_block_comment = 0
        lines = f.read_text(errors="replace").split("\n")
        in_test_mod = False
        for ln, raw in enumerate(lines, 1):
            if raw.strip().startswith("#[cfg(test)]"):
                # everything from a #[cfg(test)] module to the end of the file is test code in these crates
                nxt = " ".join(lines[ln:ln + 2])
                if re.search(r"\bmod\b", nxt):
                    in_test_mod = True
            if in_test_mod:
                break
            if "/*" in raw and "*/" not in raw:
                depth_block_comment += 1
                continue
            if depth_block_comment:
                if "*/" in raw:
                    depth_block_comment -= 1
                continue
            code = strip_line(raw)
            if not code or code.startswith("use ") or code.startswith("pub use ") or code.startswith("pub(crate) use "):
                continue
            kinds = [k for k, p in PATTERNS if p.search(code)]
            if kinds:
                items.append({"file": rel, "line": ln, "kinds": kinds, "code": code})
    return items


def key(it):
    return it["file"] + " :: " + it["code"]


if __name__ == "__main__":
    import json
    import sys
    print(json.dumps(scan(sys.argv[1]), indent=1))
