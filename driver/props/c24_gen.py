"""Generators for C24: valid schemas (SDL text) and introspection queries.

Every random choice comes from the rng handed in.  The schema generator keeps its own picture of what it
generated (types, their kinds, which defaults are written in a non-coerced form), so the driver can classify
the known default-value finding narrowly."""

STD_QUERY = """query IntrospectionQuery {
  __schema {
    description
    queryType { name }
    mutationType { name }
    subscriptionType { name }
    types { ...FullType }
    directives {
      name
      description
      isRepeatable
      locations
      args(includeDeprecated: true) { ...InputValue }
    }
  }
}
fragment FullType on __Type {
  kind
  name
  description
  specifiedByURL
  fields(includeDeprecated: true) {
    name
    description
    args(includeDeprecated: true) { ...InputValue }
    type { ...TypeRef }
    isDeprecated
    deprecationReason
  }
  inputFields(includeDeprecated: true) { ...InputValue }
  interfaces { ...TypeRef }
  enumValues(includeDeprecated: true) {
    name
    description
    isDeprecated
    deprecationReason
  }
  possibleTypes { ...TypeRef }
}
fragment InputValue on __InputValue {
  name
  description
  type { ...TypeRef }
  defaultValue
  isDeprecated
  deprecationReason
}
fragment TypeRef on __Type {
  kind
  name
  ofType { kind name ofType { kind name ofType { kind name ofType { kind name ofType { kind name ofType {
    kind name ofType { kind name } } } } } } }
}
"""

# the standard query without includeDeprecated (defaults to false) — the other half of the deprecation filter
STD_QUERY_NODEP = STD_QUERY.replace("(includeDeprecated: true)", "")

ALL_LOCS = ["QUERY", "MUTATION", "SUBSCRIPTION", "FIELD", "FRAGMENT_DEFINITION", "FRAGMENT_SPREAD",
            "INLINE_FRAGMENT", "VARIABLE_DEFINITION", "SCHEMA", "SCALAR", "OBJECT", "FIELD_DEFINITION",
            "ARGUMENT_DEFINITION", "INTERFACE", "UNION", "ENUM", "ENUM_VALUE", "INPUT_OBJECT",
            "INPUT_FIELD_DEFINITION"]

# (source literal, ) string defaults: escapes, unicode, block strings
STRING_LITS = ['"abc"', '""', '"a\\"b"', '"back\\\\slash"', '"line\\nbreak"', '"tab\\there"', '"\\u00e9t\\u00E9"',
               '"é中🚀"', '"""block "quoted" text"""', '"""\n  indented\n    block\n  """', '"bell\\u0007"',
               '"cr\\rlf"', '"\\b\\f"', '"del\x7f"', '"slash\\/"']
DESCS = ['"quoted description"', '"""block description"""', '"""\n  multi\n    line\n  description\n  """',
         '"with \\"escapes\\" and \\n newline"', '"unicode é中🚀"', '""', '"""contains \\""" triple"""']
SPEC_URLS = ['"abc"', '"https://example.com/spec"', '"""https://x.y/z"""']
REASONS = ['"use other"', '"""block reason"""', '"é \\"q\\""', '""']


class Schema:
    """one generated schema and what the driver needs to know about it"""

    def __init__(self):
        self.text = ""
        self.type_names = []       # user type names
        self.nc_defaults = []      # defaults written in a form that differs from the printed coerced value
        self.root_fields = []      # (name, needs_subselection) of the query root type, callable without arguments
        self.query_type = "Query"
        self.features = set()


class SchemaGen:
    def __init__(self, rng, allow_nc=True):
        self.r = rng
        self.allow_nc = allow_nc
        self.out = Schema()
        self.scalars = ["Int", "Float", "String", "Boolean", "ID"]
        self.custom_scalars = []
        self.enums = {}       # name -> [values]
        self.inputs = {}      # name -> [(fname, type_text, has_default)]
        self.ifaces = {}      # name -> dict(impl=[...], fields=[(name, args_text, type_text)])
        self.objects = {}     # name -> dict(impl, fields)
        self.unions = {}
        self.iface_field_names = set()
        self.n = 0

    # ---------------------------------------------------------------- helpers
    def chance(self, p):
        return self.r.random() < p

    def fresh(self, prefix):
        self.n += 1
        return f"{prefix}{self.n}"

    def desc(self, p=0.4):
        if self.chance(p):
            self.out.features.add("description")
            return self.r.choice(DESCS) + " "
        return ""

    def deprecated(self, p=0.3):
        if not self.chance(p):
            return ""
        k = self.r.randint(0, 5)
        self.out.features.add("deprecated")
        if k <= 1:
            return " @deprecated"
        if k == 2 and self.chance(0.5):
            self.out.features.add("deprecated-null-reason")
            return " @deprecated(reason: null)"
        return f" @deprecated(reason: {self.r.choice(REASONS)})"

    def wrap(self, name, depth=0):
        k = self.r.randint(0, 9)
        if k <= 3 or depth >= 3:
            return name if self.chance(0.6) else name + "!"
        inner = self.wrap(name, depth + 1)
        return f"[{inner}]" if self.chance(0.6) else f"[{inner}]!"

    # ---------------------------------------------------------------- default values
    def default_for(self, ty, depth=0):
        """(literal text as apollo prints it, literal source text, is_non_coerced)"""
        r = self.r
        nullable = not ty.endswith("!")
        base = ty[:-1] if ty.endswith("!") else ty
        if nullable and (r.random() < 0.08 or depth > 5):
            return "null", "null", False
        if base.startswith("["):
            inner = base[1:-1]
            if self.allow_nc and r.random() < 0.15:
                # a single item for a list type: coerces to a one-element list
                p, s, _ = self.default_for(inner.rstrip("!") + "!", depth + 1)
                if p != "null":
                    self.out.features.add("nc-list")
                    return p, s, True
            items = [self.default_for(inner, depth + 1) for _ in range(r.randint(0, 2 if depth else 3))]
            printed = None if any(i[0] is None for i in items) else "[" + ", ".join(i[0] for i in items) + "]"
            return printed, "[" + ", ".join(i[1] for i in items) + "]", any(i[2] for i in items)
        if base == "Int":
            v = r.choice(["0", "1", "-5", "2147483647", "42"])
            return v, v, False
        if base == "Float":
            v = r.choice(["1.5", "1", "-0.25", "1e3", "1.0", "6.02E23", "0"])
            self.out.features.add("float-default")
            return v, v, False
        if base == "Boolean":
            v = r.choice(["true", "false"])
            return v, v, False
        if base == "String":
            s = r.choice(STRING_LITS)
            self.out.features.add("string-default")
            return None, s, False     # printed form: whatever; not needed (never non-coerced)
        if base == "ID":
            s = r.choice(['"id-1"', '"42"', "7"])
            return None, s, False
        if base in self.enums:
            v = r.choice(self.enums[base])
            self.out.features.add("enum-default")
            return v, v, False
        if base in self.custom_scalars:
            s = r.choice(['"x"', "1", "1.5", "true", "FOO", "[1, \"a\"]", "{a: 1, b: [true]}", "{}"])
            return s, s, False
        if base in self.inputs:
            self.out.features.add("object-default")
            fields = self.inputs[base]
            entries, nc = [], False
            for (fname, fty, has_default) in fields:
                required = fty.endswith("!") and not has_default
                if required or r.random() < (0.6 if depth < 3 else 0.0):
                    p, s, n = self.default_for(fty, depth + 1)
                    entries.append((fname, p, s))
                    nc = nc or n
                elif has_default:
                    nc = True      # the coerced value gains this field
            order_changed = False
            if len(entries) > 1 and self.allow_nc and r.random() < 0.3:
                entries.reverse()
                order_changed = True
            if (nc or order_changed) and not self.allow_nc:
                # canonical form only: all defaulted fields given, in order
                entries, nc, order_changed = [], False, False
                for (fname, fty, has_default) in fields:
                    p, s, n = self.default_for(fty, depth + 1)
                    entries.append((fname, p, s))
                    nc = nc or n
            if nc or order_changed:
                self.out.features.add("nc-object")
            if any(e[1] is None for e in entries):
                printed = None
            else:
                printed = "{" + ", ".join(f"{n}: {p}" for n, p, _ in entries) + "}"
            return printed, "{" + ", ".join(f"{n}: {s}" for n, _, s in entries) + "}", nc or order_changed
        return "null", "null", False

    def maybe_default(self, ty, p=0.5):
        """(' = literal' or '', has_default)"""
        if not self.chance(p):
            return "", False
        printed, src, nc = self.default_for(ty)
        if nc:
            if printed is None:
                # cannot describe the printed form: do not use a non-coerced default here
                return "", False
            self.out.nc_defaults.append(printed)
        return f" = {src}", True

    # ---------------------------------------------------------------- pieces
    def input_type_name(self):
        pool = self.scalars + self.custom_scalars + list(self.enums) + list(self.inputs)
        return self.r.choice(pool)

    def output_type_name(self):
        pool = (self.scalars + self.custom_scalars + list(self.enums) + list(self.objects) + list(self.ifaces)
                + list(self.unions))
        return self.r.choice(pool)

    def args(self, maxn=3):
        n = self.r.choice([0, 0, 0, 1, 1, 2, maxn])
        if n == 0:
            return "", False
        parts, names, required = [], set(), False
        for _ in range(n):
            name = self.r.choice(["a", "b", "first", "where", "x1"])
            if name in names:
                continue
            names.add(name)
            ty = self.wrap(self.input_type_name())
            dflt, has = self.maybe_default(ty)
            if ty.endswith("!") and not has:
                required = True
                dep = ""
            else:
                dep = self.deprecated(0.25)
                if dep:
                    self.out.features.add("deprecated-arg")
            parts.append(f"{self.desc(0.25)}{name}: {ty}{dflt}{dep}")
        return "(" + ", ".join(parts) + ")", required

    def field(self, name):
        args, required = self.args()
        ty = self.wrap(self.output_type_name())
        return (name, args, ty, required)

    def field_text(self, f):
        name, args, ty, _ = f
        return f"  {self.desc(0.3)}{name}{args}: {ty}{self.deprecated(0.25)}"

    def own_fields(self, taken, lo=1, hi=4, iface=False):
        out = []
        for _ in range(self.r.randint(lo, hi)):
            name = self.r.choice(["id", "name", "items", "node", "count", "f", "g", "value", "other", "more"])
            # a field name belongs to at most one interface, so that two interfaces implemented by the same
            # type never disagree about a field
            if name in taken or (iface and name in self.iface_field_names):
                continue
            if iface:
                self.iface_field_names.add(name)
            taken.add(name)
            out.append(self.field(name))
        return out

    def closed_impls(self, pick):
        out = []
        for i in pick:
            for j in self.ifaces[i]["impl"] + [i]:
                if j not in out:
                    out.append(j)
        return out

    def inherited(self, impls):
        fields, taken = [], set()
        for i in impls:
            for f in self.ifaces[i]["fields"]:
                if f[0] not in taken:
                    taken.add(f[0])
                    fields.append(f)
        return fields, taken

    # ---------------------------------------------------------------- the schema
    def generate(self):
        r, o = self.r, self.out
        parts = []
        # custom scalars
        for _ in range(r.randint(0, 2)):
            n = self.fresh("Sc")
            self.custom_scalars.append(n)
            spec = ""
            if self.chance(0.6):
                spec = " @specifiedBy(url: " + r.choice(SPEC_URLS) + ")"
                o.features.add("specifiedBy")
            parts.append(f"{self.desc()}scalar {n}{spec}")
        # enums
        for _ in range(r.randint(0, 2)):
            n = self.fresh("En")
            vals = r.sample(["RED", "GREEN", "BLUE", "OLD", "NEW", "other", "_x"], r.randint(1, 4))
            self.enums[n] = vals
            body = "\n".join(f"  {self.desc(0.3)}{v}{self.deprecated(0.3)}" for v in vals)
            parts.append(f"{self.desc()}enum {n} {{\n{body}\n}}")
        # input objects (acyclic through defaults: a field only refers to earlier inputs)
        for _ in range(r.randint(0, 3)):
            n = self.fresh("In")
            fields, names, lines = [], set(), []
            for _ in range(r.randint(1, 4)):
                fname = r.choice(["a", "b", "c", "x", "y", "list"])
                if fname in names:
                    continue
                names.add(fname)
                ty = self.wrap(self.input_type_name())
                dflt, has = self.maybe_default(ty, 0.55)
                dep = "" if (ty.endswith("!") and not has) else self.deprecated(0.25)
                if dep:
                    o.features.add("deprecated-input-field")
                fields.append((fname, ty, has))
                lines.append(f"  {self.desc(0.3)}{fname}: {ty}{dflt}{dep}")
            if self.chance(0.3):
                # a nullable self reference (no default): allowed, not a cycle
                lines.append(f"  self: {n}")
                fields.append(("self", n, False))
            self.inputs[n] = fields
            parts.append(f"{self.desc()}input {n} {{\n" + "\n".join(lines) + "\n}")
        # output types: names first so that fields can refer forward
        iface_names = [self.fresh("If") for _ in range(r.randint(0, 3))]
        obj_names = [self.fresh("Ob") for _ in range(r.randint(1, 4))]
        union_names = [self.fresh("Un") for _ in range(r.randint(0, 2))]
        explicit = self.chance(0.5)
        qname = self.fresh("RootQ") if explicit else "Query"
        mname = (self.fresh("RootM") if explicit else "Mutation") if self.chance(0.4) else None
        sname = (self.fresh("RootS") if explicit else "Subscription") if self.chance(0.3) else None
        roots = [x for x in (qname, mname, sname) if x]
        for x in iface_names:
            self.ifaces[x] = {"impl": [], "fields": []}
        for x in obj_names + roots:
            self.objects[x] = {"impl": [], "fields": []}
        for x in union_names:
            self.unions[x] = []
        # interfaces, earlier ones may be implemented by later ones
        for idx, n in enumerate(iface_names):
            pick = [i for i in iface_names[:idx] if self.chance(0.5)]
            impls = self.closed_impls(pick)
            if impls:
                o.features.add("interface-implements-interface")
            inh, taken = self.inherited(impls)
            own = self.own_fields(taken, 1 if not inh else 0, 3, iface=True)
            if not inh and not own:
                own = [self.field(f"only{idx}")]
            self.ifaces[n] = {"impl": impls, "fields": inh + own}
        for n in obj_names + roots:
            pick = [i for i in iface_names if self.chance(0.35)]
            impls = self.closed_impls(pick)
            inh, taken = self.inherited(impls)
            own = self.own_fields(taken, 1 if not inh else 0, 4)
            if not inh and not own:
                own = [self.field("solo")]
            self.objects[n] = {"impl": impls, "fields": inh + own}
        for n in union_names:
            self.unions[n] = r.sample(obj_names + roots, r.randint(1, min(3, len(obj_names + roots))))
            o.features.add("union")
        # the texts (field texts are produced per type so that descriptions/deprecations differ between an
        # interface and its implementers, as the spec allows)
        ext_parts = []
        for n in iface_names:
            d = self.ifaces[n]
            imp = (" implements " + " & ".join(d["impl"])) if d["impl"] else ""
            body = "\n".join(self.field_text(f) for f in d["fields"])
            parts.append(f"{self.desc()}interface {n}{imp} {{\n{body}\n}}")
        for n in obj_names + roots:
            d = self.objects[n]
            imp = (" implements " + " & ".join(d["impl"])) if d["impl"] else ""
            fields = list(d["fields"])
            if len(fields) > 1 and self.chance(0.2):
                # move the last (own) field into an extension
                extra = fields.pop()
                ext_parts.append(f"extend type {n} {{\n{self.field_text(extra)}\n}}")
                o.features.add("extension")
            body = "\n".join(self.field_text(f) for f in fields)
            parts.append(f"{self.desc()}type {n}{imp} {{\n{body}\n}}")
        for n in union_names:
            ms = self.unions[n]
            if len(ms) > 1 and self.chance(0.3):
                parts.append(f"{self.desc()}union {n} = {' | '.join(ms[:-1])}")
                ext_parts.append(f"extend union {n} = {ms[-1]}")
                o.features.add("extension")
            else:
                parts.append(f"{self.desc()}union {n} = {' | '.join(ms)}")
        for n, vals in list(self.enums.items()):
            if self.chance(0.2):
                ext_parts.append(f"extend enum {n} {{ EXTRA{self.deprecated(0.5)} }}")
                o.features.add("extension")
        # directives
        for _ in range(r.randint(0, 3)):
            n = self.fresh("dir")
            args, _ = self.args(3)
            rep = " repeatable" if self.chance(0.4) else ""
            if rep:
                o.features.add("repeatable")
            locs = r.sample(ALL_LOCS, r.randint(1, 5)) if self.chance(0.85) else list(ALL_LOCS)
            if len(locs) == len(ALL_LOCS):
                o.features.add("all-locations")
            lead = "| " if self.chance(0.2) else ""
            parts.append(f"{self.desc()}directive @{n}{args}{rep} on {lead}{' | '.join(locs)}")
        # schema definition
        if explicit:
            ops = [f"  query: {qname}"]
            ext_ops = []
            if mname:
                (ext_ops if self.chance(0.3) else ops).append(f"  mutation: {mname}")
            if sname:
                ops.append(f"  subscription: {sname}")
            parts.append(f"{self.desc(0.6)}schema {{\n" + "\n".join(ops) + "\n}")
            if ext_ops:
                ext_parts.append("extend schema {\n" + "\n".join(ext_ops) + "\n}")
                o.features.add("extension")
            o.features.add("explicit-schema")
        else:
            o.features.add("implicit-schema")
        r.shuffle(parts)
        o.text = "\n\n".join(parts + ext_parts) + "\n"
        o.type_names = (self.custom_scalars + list(self.enums) + list(self.inputs) + iface_names + obj_names
                        + roots + union_names)
        o.query_type = qname
        leafs = set(self.scalars + self.custom_scalars + list(self.enums))
        for (fname, args, ty, required) in self.objects[qname]["fields"]:
            if not required:
                base = ty.replace("[", "").replace("]", "").replace("!", "")
                o.root_fields.append((fname, base not in leafs))
        return o


# ------------------------------------------------------------------------------------------ queries
# the introspection schema as the query generator sees it: type -> [(field, takes includeDeprecated, result)]
# result: None for a leaf, else the object type
META = {
    "__Schema": [("description", False, None), ("types", False, "__Type"), ("queryType", False, "__Type"),
                 ("mutationType", False, "__Type"), ("subscriptionType", False, "__Type"),
                 ("directives", False, "__Directive")],
    "__Type": [("kind", False, None), ("name", False, None), ("description", False, None),
               ("fields", True, "__Field"), ("interfaces", False, "__Type"), ("possibleTypes", False, "__Type"),
               ("enumValues", True, "__EnumValue"), ("inputFields", True, "__InputValue"),
               ("ofType", False, "__Type"), ("specifiedByURL", False, None)],
    "__Field": [("name", False, None), ("description", False, None), ("args", True, "__InputValue"),
                ("type", False, "__Type"), ("isDeprecated", False, None), ("deprecationReason", False, None)],
    "__InputValue": [("name", False, None), ("description", False, None), ("type", False, "__Type"),
                     ("defaultValue", False, None), ("isDeprecated", False, None),
                     ("deprecationReason", False, None)],
    "__EnumValue": [("name", False, None), ("description", False, None), ("isDeprecated", False, None),
                    ("deprecationReason", False, None)],
    "__Directive": [("name", False, None), ("description", False, None), ("locations", False, None),
                    ("args", True, "__InputValue"), ("isRepeatable", False, None)],
}
DEPTH_FIELDS = {"fields", "interfaces", "possibleTypes", "inputFields"}


class QueryGen:
    """random valid sub-queries of the introspection schema: subsets of fields, aliases, repeated fields
    (merged), inline fragments with and without type condition, named fragments, @skip/@include with literal
    conditions, includeDeprecated true/false/null/absent, __typename everywhere, concrete root fields"""

    def __init__(self, rng, schema):
        self.r = rng
        self.s = schema
        self.frags = []
        self.features = set()

    def directive(self):
        k = self.r.random()
        if k < 0.85:
            return ""
        self.features.add("skip-include")
        return self.r.choice([" @skip(if: true)", " @skip(if: false)", " @include(if: true)",
                              " @include(if: false)", " @skip(if: false) @include(if: true)",
                              " @include(if: false) @skip(if: false)"])

    def selset(self, ty, lists, depth):
        """a non-empty selection set on introspection object type `ty`; `lists` = list fields passed so far"""
        r = self.r
        fields = META[ty]
        k = r.randint(1, min(5, len(fields)))
        chosen = [r.choice(fields) for _ in range(k)]
        items, keys = [], {}
        for (name, incl, res) in chosen:
            nl = lists + (1 if name in DEPTH_FIELDS else 0)
            if nl >= 3 or (res is not None and depth >= 6):
                continue
            args = ""
            if incl:
                c = r.randint(0, 4)
                if c >= 2:
                    args = "(includeDeprecated: " + ["true", "false", "null"][c - 2] + ")"
                    self.features.add("includeDeprecated-" + ["true", "false", "null"][c - 2])
            alias = ""
            key = name
            if r.random() < 0.15:
                key = r.choice(["k", "z", "name", "x_" + name])
                alias = key + ": "
                self.features.add("alias")
            repeated = key in keys
            if repeated:
                if keys[key] != (name, args):
                    continue
                self.features.add("merged-field")
            keys[key] = (name, args)
            sub = ""
            if res is not None and repeated:
                # the sub-selections of the two fields are merged: keep the second one free of conflicts
                leaf = r.choice([f for f in META[res] if f[2] is None])[0]
                sub = f" {{ m_{leaf}: {leaf} __typename }}"
                self.features.add("merged-subselections")
            elif res is not None:
                sub = " " + self.selset(res, nl, depth + 1)
            items.append(f"{alias}{name}{args}{self.directive()}{sub}")
        if r.random() < 0.2:
            items.append("__typename")
            self.features.add("typename")
        if not items:
            items.append(r.choice([f for f in fields if f[2] is None])[0])
        # wrap some items into fragments
        if len(items) > 1 and r.random() < 0.25:
            i = r.randrange(len(items))
            form = r.randint(0, 2)
            if form == 0:
                items[i] = f"... on {ty}{self.directive()} {{ {items[i]} }}"
                self.features.add("inline-fragment")
            elif form == 1:
                items[i] = f"...{self.directive()} {{ {items[i]} }}"
                self.features.add("inline-fragment")
            else:
                fname = f"F{len(self.frags)}"
                self.frags.append(f"fragment {fname} on {ty} {{ {items[i]} }}")
                items[i] = f"...{fname}{self.directive()}"
                if r.random() < 0.3:
                    items.append(f"...{fname}")      # a second spread of the same fragment: visited once
                self.features.add("fragment-spread")
        r.shuffle(items)
        return "{ " + " ".join(items) + " }"

    def generate(self):
        r, s = self.r, self.s
        roots = []
        for _ in range(r.randint(1, 3)):
            c = r.randint(0, 9)
            alias = f"r{len(roots)}: "
            if c <= 3:
                roots.append(f"{alias}__schema {self.selset('__Schema', 0, 0)}")
            elif c <= 7:
                pool = s.type_names + ["Int", "String", "Boolean", "__Type", "__TypeKind", "__Schema",
                                       "__DirectiveLocation", "Nope", s.query_type]
                roots.append(f"{alias}__type(name: \"{r.choice(pool)}\") {self.selset('__Type', 0, 0)}")
                self.features.add("__type")
            elif c == 8:
                roots.append(f"{alias}__typename")
                self.features.add("root-typename")
            elif s.root_fields:
                fname, needs_sub = r.choice(s.root_fields)
                roots.append(f"{alias}{fname}" + (" { __typename }" if needs_sub else ""))
                self.features.add("concrete-root-field")
        if r.random() < 0.3 and s.root_fields:
            fname, needs_sub = r.choice(s.root_fields)
            roots.insert(r.randrange(len(roots) + 1), f"c: {fname}" + (" { __typename }" if needs_sub else ""))
            self.features.add("concrete-root-field")
        if not roots:
            roots.append("__typename")
        return "query { " + " ".join(roots) + " }\n" + "\n".join(self.frags) + "\n"


def with_concrete(query_text, schema, rng):
    """the standard query with concrete root fields selected alongside `__schema`"""
    if not schema.root_fields:
        return None
    extra = []
    for i, (fname, needs_sub) in enumerate(rng.sample(schema.root_fields, min(2, len(schema.root_fields)))):
        extra.append(f"c{i}: {fname}" + (" { __typename }" if needs_sub else ""))
    return query_text.replace("  __schema {", "  " + extra[0] + "\n  __schema {", 1).replace(
        "\n}\nfragment FullType", "\n  " + " ".join(extra[1:] + ["__typename"]) + "\n}\nfragment FullType", 1)
