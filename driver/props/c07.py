"""C07 — standalone type / field-set parsing consume the whole input."""
import itertools
from common import *
from props.parse_util import *


def classify(case, iobs, mobs):
    return None      # D7 was repaired in /repo


AFFIX = PUNCT + ["a", "1", '"s"', ",", "# c\n", "é", "on"]


def affixes(n):
    yield []
    for k in range(1, n + 1):
        for t in itertools.product(AFFIX, repeat=k):
            yield list(t)


def cases_for(ctx):
    quick = ctx.tier == "quick"
    tuples = []
    g = Gen(ctx.rng)
    types = [["Int"], ["Int", "!"], ["[", "Int", "]"], ["[", "Foo", "!", "]", "!"], ["[", "[", "T", "]", "]"]]
    types += [g.ty() for _ in range(3 if quick else 40)]
    sels = [["a"], ["{", "a", "}"], ["a", "{", "b", "}"], ["{", "a", "b", "}"], ["a", "(", "x", ":", "1", ")", "@", "d"],
            ["...", "on", "T", "{", "a", "}"], ["{", "...", "F", "}"]]
    sels += [g.selection_set() for _ in range(2 if quick else 30)]
    sels += [s[1:-1] for s in sels[-2:]]
    aff = list(affixes(2))
    if quick:
        aff1 = [a for a in aff if len(a) <= 1]
        aff2 = [a for a in aff if len(a) == 2]
        aff2 = aff2[:: 5]
    for entry, constructs in (("type", types), ("selset", sels)):
        for c in constructs:
            if quick:
                pairs = [(p, s) for p in aff1 for s in aff1] + [([], s) for s in aff2] + [(p, []) for p in aff2]
            else:
                pairs = [(p, s) for p in aff for s in aff if len(p) + len(s) <= 3]
            for p, s in pairs:
                tuples.append((entry, None, 500, render(p + c + s)))
        # token-level mutations of the construct itself
        for c in constructs:
            for m in token_mutations(c):
                tuples.append((entry, None, 500, render(m)))
    # bounded-exhaustive token sequences through the two entries
    for s in token_strings(3 if quick else 4):
        if not quick or s.count(" ") < 2:
            tuples.append(("type", None, 500, s))
            tuples.append(("selset", None, 500, s))
    for s in all_strings(ALPHA28, 2 if quick else 3):
        tuples.append(("type", None, 500, s))
        tuples.append(("selset", None, 500, s))
    return tuples


def run(ctx):
    props = check_props(ctx.pid)
    model = build_model()
    impl = build_impl()
    cases = with_items(impl, cases_for(ctx))
    rows = ctx.correspond(impl, model, "c07_parse", cases, classify=classify,
                          nontrivial=lambda c, o: True, describe=describe)
    comp = composed_sample(ctx, cases, limit=2500 if ctx.tier == "quick" else 40000)
    ctx.correspond(impl, model, "c07_parse", comp, classify=classify, nontrivial=lambda c, o: True,
                   describe=describe)
    ctx.cov["composed_with_lexer_model"] = {
        "cases": len(comp),
        "note": "these cases carry no items: the model runner lexes the source with Lex/Fun.v (lex_all / lex_limited) and "
                "parses the result, so lexer model + parser model composed are tied to the code as well"}
    fam = ctx.cov["families"]["c07_parse"]
    fam["accepted_without_error"] = sum(1 for _, i, _ in rows if i.startswith("ok noerr"))
    fam["rejected"] = sum(1 for _, i, _ in rows if i.startswith("ok err"))
    for c, i, m in [r for r in rows if r[1].startswith("ok noerr")][:3] + rows[:3]:
        ctx.sample({"case": describe(c), "impl": i, "model": m})
    ctx.cov["rule"] = (
        "c07_parse: prefix ++ construct ++ suffix with prefix and suffix over all token sequences of length <= 2 "
        "(quick: both of length <= 1, or one of length 2 sampled 1 in 5) over the punctuators, a name, a number, a "
        "string, a comma, a comment, a lexical error, `on`; constructs: fixed and generated types / selection sets "
        "(braced and bare); token-level mutations of each construct; all token sequences to length 2 (thorough 4) and "
        "all strings to length 2 (thorough 3) over the lexer alphabet through both entries.  Compared: errors empty or "
        "not, and the significant leaves when empty.  Oracle: no error => the re-printed ast::Type lexes to the "
        "input's significant tokens / the braced input is exactly one anonymous operation for the document parser.")
    ctx.cov["exhaustive"] = False
    ctx.assumptions += [
        "most cases feed the parser model the items the real lexer yields (fast); a sample runs lexer model + parser model composed on the source string",
        "the field-set oracle uses the document parser as the reference for what one selection set is",
    ]
    return ctx.finish(props)


def replay(ctx, path):
    return replay_generic(ctx, path, ["c07_parse"])
