"""C25 — the introspection depth limit does not depend on fragments."""
import json
from common import *

# ---- selection trees.  ('f', name, [subs]) | ('i', ctx, [subs]) | ('s', fragname)
# contexts: T = __Type, F = __Field, I = __InputValue
CTX_TYPE = {"T": "__Type", "F": "__Field", "I": "__InputValue"}
LIST_NAMES = {"fields", "interfaces", "possibleTypes", "inputFields"}
MAX = 3


def sexpr(sels):
    out = []
    for s in sels:
        if s[0] == "f":
            out.append("f" + s[1] + "(" + sexpr(s[2]) + ")")
        elif s[0] == "i":
            out.append("i(" + sexpr(s[2]) + ")")
        else:
            out.append("s" + s[1] + ";")
    return "".join(out)


def render(sels, inline_cond=True):
    out = []
    for s in sels:
        if s[0] == "f":
            out.append(s[1] + (" { " + render(s[2], inline_cond) + " }" if s[2] else ""))
        elif s[0] == "i":
            cond = (" on " + CTX_TYPE[s[1]]) if (inline_cond and s[1]) else ""
            out.append("..." + cond + " { " + render(s[2], inline_cond) + " }")
        else:
            out.append("..." + s[1])
    return " ".join(out)


def expand_tree(sels, frags, stack=()):
    """every named spread replaced by an inline fragment holding the (expanded) body;
    a spread of an undefined fragment becomes the leaf __typename (it selects nothing)"""
    out = []
    for s in sels:
        if s[0] == "f":
            out.append(("f", s[1], expand_tree(s[2], frags, stack)))
        elif s[0] == "i":
            out.append(("i", s[1], expand_tree(s[2], frags, stack)))
        else:
            if s[1] in frags:
                assert s[1] not in stack
                ctx, body = frags[s[1]]
                out.append(("i", ctx, expand_tree(body, frags, stack + (s[1],))))
            else:
                out.append(("f", "__typename", []))
    return out


def document(op, frags):
    """frags: ordered dict name -> (ctx, body).  Returns (text, expanded text)."""
    text = "{ " + render(op) + " }"
    for n, (ctx, body) in frags.items():
        text += f" fragment {n} on {CTX_TYPE[ctx]} {{ " + render(body) + " }"
    return text, "{ " + render(expand_tree(op, frags)) + " }"


def case_line(op, frags, mode="v"):
    text, expanded = document(op, frags)
    fr = "|".join(f"{n}={sexpr(b)}" for n, (_, b) in frags.items()) or "-"
    return f"{mode} {hexs(text)} {hexs(expanded)} {fr} {sexpr(op) or '-'}"


# ---- the code's algorithm re-implemented (cross-check of the extracted model; old=True: before the D16 fix)

class _Err(Exception):
    pass


def py_check(op, frags, old=False):
    memo = {}

    def go(d, sels):
        maxd = d
        for s in sels:
            if s[0] == "i":
                maxd = max(maxd, go(d, s[2]))
            elif s[0] == "s":
                if s[1] not in frags:
                    continue
                if s[1] in memo:
                    post = d + memo[s[1]]
                    if old:
                        if post > MAX:
                            raise _Err()
                    else:
                        if post >= MAX:
                            raise _Err()
                        maxd = max(maxd, post)
                else:
                    post = go(d, frags[s[1]][1])
                    memo[s[1]] = post - d
                    maxd = max(maxd, post)
            else:
                depth = d
                if s[1] in LIST_NAMES:
                    depth += 1
                    if depth >= MAX:
                        raise _Err()
                maxd = max(maxd, go(depth, s[2]))
        return maxd

    try:
        go(0, op)
        return "ok"
    except _Err:
        return "err"


def true_depth(sels, frags):
    m = 0
    for s in sels:
        if s[0] == "f":
            m = max(m, true_depth(s[2], frags) + (1 if s[1] in LIST_NAMES else 0))
        elif s[0] == "i":
            m = max(m, true_depth(s[2], frags))
        elif s[1] in frags:
            m = max(m, true_depth(frags[s[1]][1], frags))
    return m


# ---- bounded-exhaustive generator over the core alphabet, all in the __Type context:
#   L = possibleTypes{..} (list)   O = ofType{..} (non-list object)   n = name (leaf)
#   I = ... on __Type {..}         F, G = named spreads

def forests(n, spreads, memo={}):
    """all forests (lists of trees) with exactly n nodes; spreads = tuple of allowed fragment names"""
    key = (n, spreads)
    if key in memo:
        return memo[key]
    res = []
    if n == 0:
        res.append([])
    else:
        for k in range(1, n + 1):          # size of the first tree
            for first in trees(k, spreads):
                for rest in forests(n - k, spreads):
                    res.append([first] + rest)
    memo[key] = res
    return res


def trees(k, spreads, memo={}):
    key = (k, spreads)
    if key in memo:
        return memo[key]
    res = []
    if k == 1:
        res.append(("f", "name", []))
        for s in spreads:
            res.append(("s", s))
    else:
        for sub in forests(k - 1, spreads):
            res.append(("f", "possibleTypes", sub))
            res.append(("f", "ofType", sub))
            res.append(("i", "T", sub))
    memo[key] = res
    return res


def uses(sels, name):
    for s in sels:
        if s[0] == "s":
            if s[1] == name:
                return True
        elif uses(s[2], name):
            return True
    return False


def wrap(sels):
    return [("f", "__schema", [("f", "types", sels)])]


def exhaustive_cases(budget):
    """every (op, F, G) with total node count <= budget; F may spread G, G spreads nothing;
    every defined fragment is used (validation requires it)."""
    out = []
    for n_op in range(1, budget + 1):
        # no fragments
        for op in forests(n_op, ()):
            out.append((op, {}))
        for n_f in range(1, budget - n_op + 1):
            # only F
            for op in forests(n_op, ("F",)):
                if not uses(op, "F"):
                    continue
                for fb in forests(n_f, ()):
                    out.append((op, {"F": ("T", fb)}))
            for n_g in range(1, budget - n_op - n_f + 1):
                gbodies = forests(n_g, ())
                for op in forests(n_op, ("F", "G")):
                    if not uses(op, "F"):
                        continue
                    for fb in forests(n_f, ("G",)):
                        if not (uses(op, "G") or uses(fb, "G")):
                            continue
                        for gb in gbodies:
                            out.append((op, {"F": ("T", fb), "G": ("T", gb)}))
    return out


# ---- random typed generator (all three contexts, fragments on __Type and __Field)

def rand_sels(rng, ctx, size, avail):
    """a non-empty selection list in context ctx with about `size` nodes; avail: fragments by ctx"""
    out = []
    n = rng.randint(1, 3) if size > 1 else 1
    for _ in range(n):
        sub = max(0, (size - n) // n)
        r = rng.random()
        if sub == 0 or r < 0.15:
            if avail.get(ctx) and rng.random() < 0.5:
                out.append(("s", rng.choice(avail[ctx])))
            else:
                out.append(("f", rng.choice(["name", "__typename"]), []))
            continue
        if r < 0.3:
            out.append(("i", rng.choice([ctx, ctx, ""]), rand_sels(rng, ctx, sub, avail)))
        elif ctx == "T":
            k = rng.random()
            if k < 0.3:
                out.append(("f", rng.choice(["possibleTypes", "interfaces"]), rand_sels(rng, "T", sub, avail)))
            elif k < 0.55:
                out.append(("f", "fields", rand_sels(rng, "F", sub, avail)))
            elif k < 0.75:
                out.append(("f", "inputFields", rand_sels(rng, "I", sub, avail)))
            elif k < 0.9:
                out.append(("f", "ofType", rand_sels(rng, "T", sub, avail)))
            else:
                out.append(("f", "enumValues", [("f", "name", [])]))
        elif ctx == "F":
            if rng.random() < 0.75:
                out.append(("f", "type", rand_sels(rng, "T", sub, avail)))
            else:
                out.append(("f", "args", rand_sels(rng, "I", sub, avail)))
        else:
            out.append(("f", "type", rand_sels(rng, "T", sub, avail)))
    return out


def rand_case(rng):
    names = ["A", "B", "C", "D"][: rng.randint(0, 4)]
    ctxs = {n: rng.choice(["T", "T", "F"]) for n in names}
    frags = {}
    # later fragments may only spread earlier-defined ones (acyclic); order of definition is shuffled
    for i, n in enumerate(names):
        avail = {}
        for m in names[:i]:
            avail.setdefault(ctxs[m], []).append(m)
        frags[n] = (ctxs[n], rand_sels(rng, ctxs[n], rng.randint(1, 8), avail))
    avail = {}
    for m in names:
        avail.setdefault(ctxs[m], []).append(m)
    op = rand_sels(rng, "T", rng.randint(2, 14), avail)
    # drop unused fragments (NoUnusedFragments), to a fixed point
    while True:
        used = {n for n in frags if uses(op, n) or any(uses(b, n) for m, (_, b) in frags.items() if m != n)}
        if used == set(frags):
            break
        frags = {n: v for n, v in frags.items() if n in used}
    items = list(frags.items())
    rng.shuffle(items)
    full = [("f", "__schema", [("f", rng.choice(["types", "queryType"]), op)])]
    return full, dict(items)


def fixed_cases():
    L = lambda *s: ("f", "possibleTypes", list(s))
    Fl = lambda *s: ("f", "fields", [("f", "type", list(s))])
    n = ("f", "name", [])
    F, G = ("s", "F"), ("s", "G")
    out = []
    # D16 witnesses: a fragment of own depth 2 spread at depth 0 and again at depth 1
    out.append((wrap([F, L(F)]), {"F": ("T", [L(L(n))])}))
    out.append((wrap([F, Fl(F)]), {"F": ("T", [Fl(Fl(n))])}))
    # own depth 1, first at depth 0, hit at depth 2
    out.append((wrap([F, L(L(F))]), {"F": ("T", [L(n)])}))
    # the hit is not folded into max_depth: G = {...F} gets memo 0
    out.append((wrap([F, G, L(L(G))]), {"F": ("T", [L(n)]), "G": ("T", [F])}))
    out.append((wrap([F, G, L(L(G))]), {"F": ("T", [L(L(n))]), "G": ("T", [F])}))
    # correct rejections / acceptances around the limit
    out.append((wrap([L(L(L(n)))]), {}))
    out.append((wrap([L(L(n)), L(L(n))]), {}))
    out.append((wrap([F, L(L(F))]), {"F": ("T", [n])}))
    out.append((wrap([L(F)]), {"F": ("T", [L(L(n))])}))
    out.append((wrap([L(L(F))]), {"F": ("T", [L(L(n))])}))
    out.append((wrap([F, L(L(L(F)))]), {"F": ("T", [n])}))
    return out


def undefined_cases():
    """spreads of undefined fragments (the `continue` branch); only reachable with assume_valid"""
    L = lambda *s: ("f", "possibleTypes", list(s))
    n = ("f", "name", [])
    U = ("s", "Undefined")
    out = []
    for op in ([U], [L(U)], [L(L(U))], [U, L(L(n))], [L(L(U, L(n)))], [L(U, L(U, n))], [U, U]):
        out.append((wrap(op), {}))
    out.append((wrap([("s", "F"), L(U)]), {"F": ("T", [U, L(n)])}))
    return out


def parse_model(mo):
    parts = mo.split(" ")
    d = dict(p.split("=") for p in parts[1:])
    return parts[0], d


def run(ctx):
    props = check_props(ctx.pid)
    model = build_model()
    impl = build_impl()
    budget = 6 if ctx.tier == "quick" else 8
    trees_by_line = {}

    def add(op, frags, mode="v"):
        line = case_line(op, frags, mode)
        trees_by_line[line] = (op, frags)
        return line

    cases = [add(op, fr) for op, fr in fixed_cases()]
    cases += [add(op, fr, "u") for op, fr in undefined_cases()]
    ex = exhaustive_cases(budget)
    n_ex = len(ex)
    n_stride = 0
    if ctx.tier == "quick":
        # plus every 5th case (seed-dependent phase) of the next size
        bigger = [c for c in exhaustive_cases(budget + 1)]
        more = bigger[ctx.seed % 5:: 5]
        n_stride = len(more)
        ex = ex + more
    cases += [add(wrap(op), fr) for op, fr in ex]
    nrand = 20000 if ctx.tier == "quick" else 200000
    for _ in range(nrand):
        op, fr = rand_case(ctx.rng)
        cases.append(add(op, fr))
    seen, uniq = set(), []
    for c in cases:
        if c not in seen:
            seen.add(c)
            uniq.append(c)
    cases = uniq
    stats = {"invalid": 0, "ok": 0, "err": 0, "known": 0, "depth_hist": {}}

    def compare(iobs, mo):
        if iobs.startswith("invalid"):
            stats["invalid"] += 1
            return True
        return iobs == mo.split(" ")[0]

    def describe(c):
        p = c.split(" ")
        return {"document": unhexs(p[1]), "expanded": unhexs(p[2]), "mode": p[0]}

    rows = ctx.correspond(impl, model, "c25_depth", cases,
                          nontrivial=lambda c, o: True, describe=describe, compare=compare)
    for c, i, m in rows:
        mv, d = parse_model(m)
        if d["x"] != d["e"] or d["x"] == "none":
            raise MachineryError(f"model: expanded depth of the expansion differs or is undefined on {c}: {m}")
        op, frags = trees_by_line[c]
        if int(d["x"]) != true_depth(op, frags):
            raise MachineryError(f"driver's expanded depth differs from the model's on {c}: {m}")
        if mv != py_check(op, frags) or d["old"] != py_check(op, frags, old=True):
            raise MachineryError(f"driver's re-implementation of the check differs from the extracted model on {c}: {m}")
        if (mv == "err") != (int(d["x"]) >= MAX):
            raise MachineryError(f"model verdict differs from the specification (theorem C25_iff says it cannot) on {c}: {m}")
        if i in ("ok", "err"):
            stats[i] += 1
        if d["old"] != mv:
            stats["known"] += 1
        stats["depth_hist"][d["x"]] = stats["depth_hist"].get(d["x"], 0) + 1
    if stats["invalid"] * 100 > len(cases):
        raise MachineryError(f"{stats['invalid']} of {len(cases)} generated documents do not validate; "
                             "the generator no longer matches the introspection schema")
    fam = ctx.cov["families"]["c25_depth"]
    fam.update({"accepted": stats["ok"], "rejected": stats["err"], "invalid_skipped": stats["invalid"],
                "cases_where_the_pre_fix_code_differs": stats["known"], "expanded_depth_histogram": stats["depth_hist"],
                "exhaustive_cases": n_ex, "exhaustive_node_budget": budget,
                "strided_cases_of_next_budget": n_stride, "random_cases": nrand})
    for c, i, m in rows[:3] + rows[len(rows) // 2: len(rows) // 2 + 2] + rows[-2:]:
        ctx.sample({"family": "c25_depth", "document": unhexs(c.split(" ")[1]), "impl": i, "model": m}, limit=7)
    ctx.cov["rule"] = (
        f"every (operation, F, G) over {{possibleTypes{{..}}, ofType{{..}}, name, ... on __Type{{..}}, ...F, ...G}} with at most "
        f"{budget} nodes in total (quick tier: plus every 5th case with at most {budget + 1} nodes; F may spread G; every defined fragment used), wrapped in {{ __schema {{ types {{ .. }} }} }}; "
        f"{nrand} random typed trees over __Type/__Field/__InputValue with up to four fragments; hand-written boundary and "
        "undefined-spread cases.  Each document is checked as written and with all named fragments expanded inline "
        "(oracle: equal verdicts); the verdict as written is compared with the model.  Distinct by case text.")
    ctx.cov["exhaustive"] = f"core alphabet, <= {budget} nodes"
    ctx.assumptions += [
        "documents are validated against the built-in introspection types of a one-field schema before the depth check "
        "(undefined-spread cases use Valid::assume_valid)",
        "u32 overflow of depth_so_far + fragment_depth is not modelled (needs 2^32 nested fields)",
        "HashMap get/insert of fragment_depths is modelled as an association list (insert = cons, get = first match)",
    ]
    return ctx.finish(props)


def replay(ctx, path):
    r = json.load(open(path))
    model = build_model()
    impl = build_impl()
    fam, case = r["family"], r["case"]
    print("case :", r.get("case_readable", case))
    print("impl :", run_family(impl, fam, [case])[0])
    print("model:", run_family(model, fam, [case])[0])
    return 0
