"""Schema-history generator shared by C12, C13 and C16.

A history is a list of Items (one top-level definition each, in source order): a base of 1-6 types of
every kind, 0-4 extensions per type and of the schema placed at random positions INCLUDING before the
definition and contributing random subsets of {directives, interfaces, fields/values/members}; implicit
vs explicit schema definitions with default and non-default root names; redefined built-in directives;
built-in scalars / introspection types with extensions; and, in the `dirty` flavour, name collisions,
duplicate members / fields / interfaces, kind-mismatched and orphan extensions, duplicate root
operations, executable definitions.

Flavours: `valid` aims at schemas that validate, `clean` at schemas that build without error (type
references may dangle), `dirty` injects 1-3 build-error features."""

BUILTIN_SCALARS = ["Int", "Float", "String", "Boolean", "ID"]
KINDS = ["scalar", "object", "interface", "union", "enum", "input"]
POOL = {
    "object": ["Query", "Mutation", "Subscription", "A", "B", "Q2"],
    "interface": ["Node", "I2"],
    "union": ["U", "V"],
    "enum": ["E", "F"],
    "input": ["In", "Jn"],
    "scalar": ["S", "T2"],
}
FIELDS = ["f", "g", "h", "a", "b", "c", "x", "y", "z", "k"]
VALUES = ["X", "Y", "Z", "W", "P", "R"]
LOC = {"scalar": "SCALAR", "object": "OBJECT", "interface": "INTERFACE", "union": "UNION", "enum": "ENUM",
       "input": "INPUT_OBJECT"}
ALL_TS_LOCS = ["SCHEMA", "SCALAR", "OBJECT", "FIELD_DEFINITION", "ARGUMENT_DEFINITION", "INTERFACE", "UNION",
               "ENUM", "ENUM_VALUE", "INPUT_OBJECT", "INPUT_FIELD_DEFINITION"]
KEYWORD = {"scalar": "scalar", "object": "type", "interface": "interface", "union": "union", "enum": "enum",
           "input": "input"}


class Item:
    """role: def | ext | dirdef | schemadef | schemaext | exec ; target: type name, 'schema', '@name' or None"""

    def __init__(self, role, target, text, kind=None):
        self.role, self.target, self.text, self.kind = role, target, text, kind

    def __repr__(self):
        return f"<{self.role} {self.target} {self.text!r}>"


def text_of(items):
    return "\n".join(i.text for i in items)


class World:
    def __init__(self, rng, flavour):
        self.rng, self.flavour = rng, flavour
        self.valid = flavour == "valid"
        n = rng.randint(1, 6)
        self.types = {}  # name -> kind
        if self.valid or rng.random() < 0.6:
            self.types["Query"] = "object"
        while len(self.types) < n:
            k = rng.choice(KINDS)
            name = rng.choice(POOL[k])
            if name not in self.types:
                self.types[name] = k
        if self.valid and "union" in self.types.values() and not [t for t, k in self.types.items() if k == "object" and t != "Query"]:
            self.types["A"] = "object"
        self.used = {t: set() for t in self.types}       # component names already used per type
        self.impl_node = set()
        self.dir_defined = rng.random() < 0.85 or self.valid

    def names(self, *kinds):
        return [t for t, k in self.types.items() if k in kinds]

    def wrap(self, n, allow_nonnull=True):
        r = self.rng.random()
        if r < 0.55:
            return n
        if r < 0.7 and allow_nonnull:
            return n + "!"
        if r < 0.85:
            return f"[{n}]"
        return f"[{n}!]!" if allow_nonnull else f"[{n}]"

    def out_type(self):
        cands = BUILTIN_SCALARS + self.names("scalar", "enum", "object", "interface", "union")
        if not self.valid and self.rng.random() < 0.1:
            cands = cands + ["Undefined", "In"]
        return self.wrap(self.rng.choice(cands))

    def in_type(self, inside_input=False):
        cands = BUILTIN_SCALARS + self.names("scalar", "enum")
        inputs = self.names("input")
        if inputs and self.rng.random() < 0.3:
            return self.wrap(self.rng.choice(inputs), allow_nonnull=False)
        if not self.valid and self.rng.random() < 0.1:
            cands = cands + ["Undefined", "A"]
        return self.wrap(self.rng.choice(cands))

    def dirs(self, maxn=2):
        out = []
        for _ in range(self.rng.choice([0, 0, 0, 1, 1, maxn])):
            r = self.rng.random()
            if r < 0.6:
                out.append("@d")
            elif r < 0.85:
                out.append(f"@d(a: {self.rng.randint(1, 3)})")
            elif self.valid:
                out.append("@d")
            else:
                out.append(self.rng.choice(["@e", "@undefinedDir", '@d(b: "s")']))
        return "".join(" " + d for d in out)

    def desc(self):
        if self.rng.random() < 0.15:
            return f'"{self.rng.choice(["doc", "a description", "x y"])}" '
        return ""

    def arg(self, name):
        t = self.in_type()
        dv = ""
        if t in ("Int", "Float") and self.rng.random() < 0.4:
            dv = " = 1"
        elif t == "String" and self.rng.random() < 0.3:
            dv = ' = "s"'
        elif t == "Boolean" and self.rng.random() < 0.3:
            dv = " = true"
        return f"{self.desc()}{name}: {t}{dv}{self.dirs(1)}"

    def field(self, name, ty=None):
        args = ""
        if self.rng.random() < 0.3:
            names = self.rng.sample(["a", "b", "c"], self.rng.randint(1, 2))
            args = "(" + ", ".join(self.arg(n) for n in names) + ")"
        return f"{self.desc()}{name}{args}: {ty or self.out_type()}{self.dirs(1)}"

    def fresh(self, t, pool, n):
        avail = [x for x in pool if x not in self.used[t]]
        self.rng.shuffle(avail)
        got = avail[:n]
        self.used[t].update(got)
        return got

    def body(self, t, k, lo, hi):
        """a list of fields / values / members for type t (fresh names), as text pieces"""
        n = self.rng.randint(lo, hi)
        if k in ("object", "interface"):
            return [self.field(x) for x in self.fresh(t, FIELDS, n)]
        if k == "input":
            return [self.arg(x) for x in self.fresh(t, FIELDS, n)]
        if k == "enum":
            return [f"{self.desc()}{x}{self.dirs(1)}" for x in self.fresh(t, VALUES, n)]
        if k == "union":
            objs = [o for o in self.names("object") if not (self.valid and o == t)]
            if not self.valid:
                objs = objs + ["A", "B", "Undefined"]
            return self.fresh(t, sorted(set(objs)), n)
        return []

    def implements(self, t, k):
        """interfaces for a definition or extension of t; in valid mode only Node, with its field id: ID"""
        if k not in ("object", "interface"):
            return [], []
        ifaces = [i for i in self.names("interface") if i != t]
        if not self.valid:
            ifaces = ifaces + ["Node", "I2"]
        ifaces = [i for i in sorted(set(ifaces)) if ("&" + i) not in self.used[t] and i != t]
        if not ifaces or self.rng.random() < 0.6:
            return [], []
        if self.valid:
            if "Node" not in ifaces or self.types.get("Node") != "interface":
                return [], []
            self.used[t].add("&Node")
            extra = []
            if "id" not in self.used[t]:
                self.used[t].add("id")
                extra = ["id: ID"]
            return ["Node"], extra
        got = self.rng.sample(ifaces, self.rng.randint(1, min(2, len(ifaces))))
        for i in got:
            self.used[t].add("&" + i)
        return got, []

    def render(self, t, k, ext, ifaces, dirs, body, desc=""):
        head = ("extend " if ext else desc) + f"{KEYWORD[k]} {t}"
        if ifaces:
            head += " implements " + " & ".join(ifaces)
        head += dirs
        if k == "scalar":
            return head
        if k == "union":
            return head + (" = " + " | ".join(body) if body else "")
        if body:
            return head + " { " + " ".join(body) + " }"
        return head

    def definition(self, t, k):
        if self.valid and t == "Node" and k == "interface":
            self.used[t].add("id")
            body = ["id: ID"]
            return self.render(t, k, False, [], self.dirs(), body, self.desc())
        ifaces, extra = self.implements(t, k)
        lo = 1 if (self.valid or self.rng.random() < 0.8) else 0
        body = extra + self.body(t, k, lo, 3)
        return self.render(t, k, False, ifaces, self.dirs(), body, self.desc())

    def extension(self, t, k):
        """a random non-empty subset of {directives, interfaces, fields/values/members}"""
        for _ in range(8):
            dirs = self.dirs() if self.rng.random() < 0.5 else ""
            ifaces, extra = ([], [])
            if k in ("object", "interface") and self.rng.random() < 0.4 and not (self.valid and t == "Node"):
                ifaces, extra = self.implements(t, k)
            body = list(extra)
            if k != "scalar" and self.rng.random() < 0.6 and not (self.valid and t == "Node"):
                body += self.body(t, k, 1, 2)
            if dirs or ifaces or body:
                return self.render(t, k, True, ifaces, dirs, body)
        return self.render(t, k, True, [], " @d", [])


def gen_history(rng, flavour="clean"):
    """-> list of Items"""
    w = World(rng, flavour)
    items = []
    # --- base definitions, in random order
    order = list(w.types.items())
    rng.shuffle(order)
    if w.valid and ("Node", "interface") in order:
        order.remove(("Node", "interface"))
        order.insert(0, ("Node", "interface"))
    for t, k in order:
        items.append(Item("def", t, w.definition(t, k), k))
    # --- schema definition
    r = rng.random()
    objs = w.names("object")
    schema_mode = "implicit"
    if r < 0.35 and objs:
        schema_mode = "explicit"
        roots = []
        q = "Query" if "Query" in objs and rng.random() < 0.6 else rng.choice(objs)
        if w.valid and "Query" in objs and rng.random() < 0.5:
            q = "Query"
        roots.append(f"query: {q}")
        others = [o for o in objs if o != q]
        if others and rng.random() < 0.4:
            roots.append(f"mutation: {rng.choice(others)}")
        sdirs = w.dirs(1)
        items.insert(rng.randint(0, len(items)), Item("schemadef", "schema", f"{w.desc()}schema{sdirs} {{ {' '.join(roots)} }}"))
        w.roots_used = {x.split(":")[0] for x in roots}
    else:
        w.roots_used = set()
        for op, n in (("query", "Query"), ("mutation", "Mutation"), ("subscription", "Subscription")):
            if w.types.get(n) == "object":
                w.roots_used.add(op)
    # --- directive definitions
    if w.dir_defined:
        rep = "repeatable " if (w.valid or rng.random() < 0.8) else ""
        locs = ALL_TS_LOCS if (w.valid or rng.random() < 0.8) else rng.sample(ALL_TS_LOCS, 3)
        items.insert(rng.randint(0, len(items)), Item("dirdef", "@d", f"{w.desc()}directive @d(a: Int) {rep}on {' | '.join(locs)}"))
    if rng.random() < 0.25:
        text = rng.choice([
            "directive @skip(if: Boolean!) on FIELD | FRAGMENT_SPREAD | INLINE_FRAGMENT",
            "directive @deprecated(reason: String = \"no\") on FIELD_DEFINITION | ENUM_VALUE | OBJECT",
            "directive @include(if: Boolean!) repeatable on FIELD | FRAGMENT_SPREAD | INLINE_FRAGMENT",
            "directive @specifiedBy(url: String!) on SCALAR",
        ])
        items.insert(rng.randint(0, len(items)), Item("dirdef", "@" + text.split("@")[1].split("(")[0], text))
    if not w.valid and rng.random() < 0.3:
        items.insert(rng.randint(0, len(items)), Item("dirdef", "@e", "directive @e on OBJECT | FIELD_DEFINITION"))
    # --- extensions of the user types, at random positions (before or after the definition)
    for t, k in order:
        for _ in range(rng.choice([0, 0, 1, 1, 2, 3, 4])):
            items.insert(rng.randint(0, len(items)), Item("ext", t, w.extension(t, k), k))
    # --- extensions of built-in types
    if rng.random() < 0.25:
        b = rng.choice(BUILTIN_SCALARS)
        for _ in range(rng.randint(1, 2)):
            items.insert(rng.randint(0, len(items)), Item("ext", b, f"extend scalar {b} @d" + (" @d(a: 2)" if rng.random() < 0.3 else ""), "scalar"))
    if not w.valid and rng.random() < 0.1:
        items.insert(rng.randint(0, len(items)), Item("ext", "__Type", "extend type __Type @d { zz: Int }", "object"))
    # --- schema extensions
    n_sx = rng.choice([0, 0, 0, 1, 1, 2, 3])
    for _ in range(n_sx):
        parts = []
        sdirs = w.dirs() if rng.random() < 0.6 else ""
        free = [op for op in ("query", "mutation", "subscription") if op not in w.roots_used]
        if free and objs and rng.random() < 0.5:
            op = rng.choice(free)
            w.roots_used.add(op)
            parts.append(f"{op}: {rng.choice(objs)}")
        if not sdirs and not parts:
            sdirs = " @d"
        body = (" { " + " ".join(parts) + " }") if parts else ""
        items.insert(rng.randint(0, len(items)), Item("schemaext", "schema", f"extend schema{sdirs}{body}"))
    if flavour == "dirty":
        for _ in range(rng.randint(1, 3)):
            inject_error(rng, w, items)
    return items


def inject_error(rng, w, items):
    """one build-error feature at a random position"""
    defs = [i for i in items if i.role == "def"]
    feature = rng.choice(["dup_type", "dup_type_kind", "dup_comp_def", "dup_comp_ext", "kind_mismatch", "orphan",
                          "dup_dirdef", "builtin_dirdef_twice", "scalar_redef", "builtin_type_redef", "dup_root",
                          "two_schema_defs", "exec", "orphan_schema_ext", "dup_iface", "orphan_mixed", "orphan_many", "orphan_many"])
    pos = rng.randint(0, len(items))
    if feature in ("dup_type", "dup_type_kind") and defs:
        d = rng.choice(defs)
        k = d.kind if feature == "dup_type" else rng.choice(KINDS)
        w2_body = {"scalar": "", "object": " { dup: Int }", "interface": " { dup: Int }", "union": " = A", "enum": " { DUP }",
                   "input": " { dup: Int }"}[k]
        items.insert(pos, Item("def", d.target, f"{KEYWORD[k]} {d.target}{w2_body}", k))
    elif feature == "dup_comp_def" and defs:
        d = rng.choice(defs)
        k = d.kind
        if k in ("object", "interface", "input"):
            items.insert(pos, Item("def", "Dup" + k, f"{KEYWORD[k]} Dup{k} {{ f: Int g: Int f: String }}", k))
        elif k == "enum":
            items.insert(pos, Item("def", "DupE", "enum DupE { X Y X }", k))
        elif k == "union":
            items.insert(pos, Item("def", "DupU", "union DupU = A | B | A", k))
    elif feature == "dup_comp_ext" and defs:
        d = rng.choice(defs)
        k = d.kind
        used = sorted(x for x in w.used.get(d.target, ()) if not x.startswith("&"))
        if k in ("object", "interface", "input") and used:
            items.insert(pos, Item("ext", d.target, f"extend {KEYWORD[k]} {d.target} {{ {rng.choice(used)}: Int fresh{pos}: Int }}", k))
        elif k == "enum" and used:
            items.insert(pos, Item("ext", d.target, f"extend enum {d.target} {{ {rng.choice(used)} FRESH{pos} }}", k))
        elif k == "union" and used:
            items.insert(pos, Item("ext", d.target, f"extend union {d.target} = {rng.choice(used)} | Fresh{pos}", k))
    elif feature == "dup_iface" and defs:
        cands = [d for d in defs if d.kind in ("object", "interface")]
        if cands:
            d = rng.choice(cands)
            if rng.random() < 0.5:
                items.insert(pos, Item("ext", d.target, f"extend {KEYWORD[d.kind]} {d.target} implements Node & I2 & Node", d.kind))
            else:
                items.insert(pos, Item("ext", d.target, f"extend {KEYWORD[d.kind]} {d.target} implements Node", d.kind))
                items.insert(rng.randint(0, len(items)), Item("ext", d.target, f"extend {KEYWORD[d.kind]} {d.target} implements Node", d.kind))
    elif feature == "kind_mismatch" and defs:
        d = rng.choice(defs)
        k = rng.choice([x for x in KINDS if x != d.kind])
        body = {"scalar": " @d", "object": " { mm: Int }", "interface": " { mm: Int }", "union": " = A", "enum": " { MM }",
                "input": " { mm: Int }"}[k]
        items.insert(pos, Item("ext", d.target, f"extend {KEYWORD[k]} {d.target}{body}", k))
    elif feature == "orphan":
        k = rng.choice(KINDS)
        body = {"scalar": " @d", "object": " { o: Int }", "interface": " { o: Int }", "union": " = A", "enum": " { O }",
                "input": " { o: Int }"}[k]
        name = rng.choice(["Orphan", "Orphan2"])
        for _ in range(rng.randint(1, 2)):
            items.insert(rng.randint(0, len(items)), Item("ext", name, f"extend {KEYWORD[k]} {name}{body}", k))
            body = body.replace("o:", "p:").replace(" O ", " P ").replace("= A", "= B")
    elif feature == "orphan_many":
        # several orphan names (their order matters when orphans are adopted), interleaved with everything else;
        # together with extensions placed before their definitions this exercises removal from the ordered orphan queue
        names = rng.sample(["OrphA", "OrphB", "OrphC", "OrphD", "OrphE"], rng.randint(3, 5))
        for nm in names:
            items.insert(rng.randint(0, len(items)), Item("ext", nm, f"extend type {nm} {{ o: Int }}", "object"))
        if rng.random() < 0.5:
            items.insert(rng.randint(0, len(items)), Item("ext", names[0], f"extend type {names[0]} @d {{ p: Int }}", "object"))
    elif feature == "orphan_mixed":
        # orphan extensions of one name with different kinds
        name = "Orphan"
        items.insert(rng.randint(0, len(items)), Item("ext", name, f"extend type {name} {{ o: Int }}", "object"))
        items.insert(rng.randint(0, len(items)), Item("ext", name, f"extend union {name} = A", "union"))
        items.insert(rng.randint(0, len(items)), Item("ext", name, f"extend type {name} @d {{ o: Int q: Int }}", "object"))
    elif feature == "dup_dirdef":
        items.insert(pos, Item("dirdef", "@d", "directive @d on OBJECT"))
        items.insert(rng.randint(0, len(items)), Item("dirdef", "@d", "directive @d(z: Int) on SCALAR"))
    elif feature == "builtin_dirdef_twice":
        items.insert(pos, Item("dirdef", "@skip", "directive @skip(if: Boolean!) on FIELD"))
        items.insert(rng.randint(0, len(items)), Item("dirdef", "@skip", "directive @skip on OBJECT"))
    elif feature == "scalar_redef":
        items.insert(pos, Item("def", rng.choice(BUILTIN_SCALARS), f"scalar {rng.choice(BUILTIN_SCALARS)}", "scalar"))
    elif feature == "builtin_type_redef":
        t = rng.choice(["type __Type { x: Int }", "scalar __Schema", "enum __TypeKind { X }", "type Int { x: Int }"])
        items.insert(pos, Item("def", t.split()[1], t, {"type": "object", "scalar": "scalar", "enum": "enum"}[t.split()[0]]))
    elif feature == "dup_root":
        if rng.random() < 0.5:
            items.insert(pos, Item("schemaext", "schema", "extend schema { query: A }"))
            items.insert(rng.randint(0, len(items)), Item("schemaext", "schema", "extend schema { query: B }"))
        else:
            items.insert(pos, Item("schemaext", "schema", "extend schema { mutation: A mutation: B }"))
    elif feature == "two_schema_defs":
        items.insert(pos, Item("schemadef", "schema", "schema { query: A }"))
        items.insert(rng.randint(0, len(items)), Item("schemadef", "schema", "schema @d { query: B subscription: A }"))
    elif feature == "exec":
        items.insert(pos, Item("exec", None, rng.choice(["query Q { a }", "query { a }", "fragment F on A { a }"])))
    elif feature == "orphan_schema_ext":
        # meaningful when there is neither a schema definition nor a default-named root type
        items.insert(pos, Item("schemaext", "schema", "extend schema @d"))


def gen_case(rng):
    """(flavour, cfg, items)"""
    flavour = rng.choice(["valid", "valid", "clean", "clean", "dirty", "dirty", "dirty"])
    r = rng.random()
    cfg = "-" if r < 0.6 else ("a" if r < 0.9 else ("i" if r < 0.95 else "ai"))
    return flavour, cfg, gen_history(rng, flavour)


def touches(item, target):
    return item.target == target


def movable(items):
    """indices (i_ext, i_def) of an extension and the first definition of its target such that nothing
    between them (exclusive) touches that target; both orders"""
    out = []
    for i, e in enumerate(items):
        if e.role not in ("ext", "schemaext"):
            continue
        drole = "def" if e.role == "ext" else "schemadef"
        firsts = [j for j, d in enumerate(items) if d.role == drole and d.target == e.target]
        if not firsts:
            continue
        j = firsts[0]
        lo, hi = (i, j) if i < j else (j, i)
        if all(items[m].target != e.target for m in range(lo + 1, hi)):
            out.append((i, j))
    return out


def move_extension(items, i, j):
    """the history with extension i moved to the other side of definition j (directly next to it)"""
    items = list(items)
    e = items[i]
    if i < j:
        # e ... d   ->   ... d e
        del items[i]
        items.insert(j, e)       # after d (d is now at j-1)
    else:
        # d ... e   ->   e d ...
        del items[i]
        items.insert(j, e)       # before d
    return items
