"""Generators for C33: small valid schemas and valid operations over them (validity is by construction and
confirmed by the real validator in `smith_prepare`; rejected inputs are counted and dropped)."""
import re

SCALARS = ["Int", "Float", "String", "Boolean", "ID", "Date"]


def inner(t):
    return re.sub(r"[\[\]!]", "", t)


class Sch:
    """kinds: name -> ('object'|'interface', impls, fields{name: type}) | ('union', members) | ('enum', values) | ('scalar',)"""

    def __init__(self):
        self.types = {}
        self.order = []
        self.roots = {"query": "Query"}

    def add(self, name, *desc):
        self.types[name] = desc
        self.order.append(name)

    def kind(self, n):
        return self.types[n][0] if n in self.types else "scalar"

    def composite(self, n):
        return self.kind(n) in ("object", "interface", "union")

    def possible(self, n):
        k = self.kind(n)
        if k == "object":
            return {n}
        if k == "union":
            return set(self.types[n][1])
        if k == "interface":
            return {o for o in self.order if self.kind(o) == "object" and n in self.types[o][1]}
        return set()

    def fields(self, n):
        return self.types[n][2] if self.kind(n) in ("object", "interface") else {}

    def sdl(self):
        out = []
        if self.roots != {"query": "Query"}:
            out.append("schema { " + " ".join(f"{k}: {v}" for k, v in self.roots.items()) + " }")
        for n in self.order:
            d = self.types[n]
            if d[0] in ("object", "interface"):
                kw = "type" if d[0] == "object" else "interface"
                impl = (" implements " + " & ".join(d[1])) if d[1] else ""
                out.append(f"{kw} {n}{impl} {{ " + " ".join(f"{f}: {t}" for f, t in d[2].items()) + " }")
            elif d[0] == "union":
                out.append(f"union {n} = " + " | ".join(d[1]))
            elif d[0] == "enum":
                out.append(f"enum {n} {{ " + " ".join(d[1]) + " }")
            else:
                out.append(f"scalar {n}")
        return "\n".join(out)


def gen_schema(rng, covariant=False):
    s = Sch()
    n_if, n_obj, n_un = rng.randint(0, 3), rng.randint(1, 4), rng.randint(0, 2)
    ifaces = [f"I{k}" for k in range(n_if)]
    objs = [f"T{k}" for k in range(n_obj)]
    unions = [f"U{k}" for k in range(n_un)]
    comps = ifaces + objs + unions
    leafs = SCALARS + ["E"]

    def rand_type():
        named = rng.choice(comps) if rng.random() < 0.5 else rng.choice(leafs)
        t = named + ("!" if rng.random() < 0.4 else "")
        for _ in range(rng.choice([0, 0, 0, 1, 1, 2, 3])):
            t = "[" + t + "]" + ("!" if rng.random() < 0.4 else "")
        return t

    # a field name has one type everywhere (so that equal response keys merge), except narrowed implementations
    pool = {f"f{k}": rand_type() for k in range(9)}
    names = list(pool)
    s.add("Date", "scalar")
    s.add("E", "enum", ["A", "B", "C"][: rng.randint(1, 3)])
    # interfaces; I(k) may implement earlier interfaces (transitively closed, fields included)
    idesc = {}
    for k, i in enumerate(ifaces):
        impls = []
        if k > 0 and rng.random() < 0.5:
            p = rng.choice(ifaces[:k])
            impls = [p] + [x for x in idesc[p][0] if x != p]
        fields = {}
        for p in impls:
            fields.update(idesc[p][1])
        for f in rng.sample(names, rng.randint(1, 3)):
            fields.setdefault(f, pool[f])
        idesc[i] = (impls, fields)
    odesc = {}
    for o in objs:
        impls = []
        for i in ifaces:
            if rng.random() < 0.5:
                for x in [i] + idesc[i][0]:
                    if x not in impls:
                        impls.append(x)
        odesc[o] = impls
    for i in ifaces:                               # every interface has an implementing object
        if not any(i in odesc[o] for o in objs):
            o = rng.choice(objs)
            for x in [i] + idesc[i][0]:
                if x not in odesc[o]:
                    odesc[o].append(x)
    for i in ifaces:
        s.add(i, "interface", idesc[i][0], idesc[i][1])
    for o in objs:
        fields = {}
        for i in odesc[o]:
            fields.update(idesc[i][1])
        for f in rng.sample(names, rng.randint(0 if fields else 1, 3)):
            fields.setdefault(f, pool[f])
        s.add(o, "object", odesc[o], fields)
    for u in unions:
        s.add(u, "union", rng.sample(objs, rng.randint(1, min(3, len(objs)))))
    q = {}
    for f in rng.sample(names, rng.randint(2, 5)):
        q[f] = pool[f]
    if comps and not any(s.composite(inner(t)) for t in q.values()):
        q["root"] = rng.choice(comps)
    s.add("Query", "object", [], q)
    if rng.random() < 0.2:
        s.add("Mutation", "object", [], {f: pool[f] for f in rng.sample(names, 2)})
        s.roots = {"query": "Query", "mutation": "Mutation"}
    if covariant:
        # narrow some implementing fields: nullable -> non-null, interface/union -> a possible object type
        for o in objs:
            for f, t in list(s.types[o][2].items()):
                if not any(f in idesc[i][1] for i in odesc[o]) or rng.random() < 0.4:
                    continue
                n = inner(t)
                if s.kind(n) in ("interface", "union") and rng.random() < 0.5 and s.possible(n):
                    t = re.sub(r"\b%s\b" % n, sorted(s.possible(n))[0], t)
                elif not t.endswith("!"):
                    t = t + "!"
                elif (n + "!") not in t:
                    t = t.replace(n, n + "!")
                s.types[o][2][f] = t
    return s


class DocGen:
    def __init__(self, rng, sch):
        self.rng, self.s = rng, sch
        self.frags = []          # (name, cond, body)

    def compatible(self, ty):
        p = self.s.possible(ty)
        return [c for c in self.s.order if self.s.composite(c) and self.s.possible(c) & p]

    def selset(self, ty, budget):
        n = self.rng.randint(1, 4)
        return "{ " + " ".join(self.selection(ty, budget) for _ in range(n)) + " }"

    def selection(self, ty, budget):
        rng, s = self.rng, self.s
        fields = s.fields(ty)
        r = rng.random()
        if budget <= 0:
            leaf = [f for f, t in fields.items() if not s.composite(inner(t))]
            if leaf and r < 0.7:
                return self.field(ty, rng.choice(leaf), budget)
            return "__typename"
        if not fields or r < 0.12:
            if fields or r < 0.3:
                return "__typename" if rng.random() < 0.7 else "tn: __typename"
        if fields and r < 0.62:
            return self.field(ty, rng.choice(list(fields)), budget)
        if r < 0.82 or not fields:
            cond = rng.choice([None] + self.compatible(ty))
            on = f" on {cond}" if cond else ""
            return f"...{on} " + self.selset(cond or ty, budget - 1)
        usable = [f for f in self.frags if f[1] in self.compatible(ty)]
        if usable and rng.random() < 0.5:
            return "..." + rng.choice(usable)[0]
        cond = rng.choice(self.compatible(ty))
        body = self.selset(cond, budget - 1)
        name = f"F{len(self.frags)}"
        self.frags.append((name, cond, body))
        return "..." + name

    def field(self, ty, f, budget):
        t = self.s.fields(ty)[f]
        alias = f"{f}_a: " if self.rng.random() < 0.25 else ""
        n = inner(t)
        if self.s.composite(n):
            return f"{alias}{f} " + self.selset(n, budget - 1)
        return f"{alias}{f}"


def gen_document(rng, sch):
    g = DocGen(rng, sch)
    budget = rng.choice([1, 2, 3, 3, 4])
    r = rng.random()
    if r < 0.75:
        body = g.selset("Query", budget)
        ops, opname = ["query " + body], None
        if rng.random() < 0.3:
            ops, opname = ["query Q " + body], rng.choice([None, "Q"])
    elif r < 0.85 and "mutation" in sch.roots:
        ops, opname = ["mutation " + g.selset("Mutation", budget)], None
    else:
        ops = ["query A " + g.selset("Query", budget), "query B " + g.selset("Query", max(1, budget - 1))]
        opname = rng.choice(["A", "B", "B", None, "Zz"])
    frs = [f"fragment {n} on {c} {b}" for n, c, b in g.frags]
    return "\n".join(ops + frs), opname


# ---- fixed cases (run first on every check) ----
S_BASIC = """
type Query { user: User posts: [Post!]! matrix: [[Int!]] cube: [[[Float]!]]! node: Node search: [Result]! e: E es: [E!] d: Date id: ID! ok: Boolean }
interface Node { id: ID! name: String }
interface Named implements Node { id: ID! name: String nick: String }
type User implements Node & Named { id: ID! name: String nick: String friends: [User] address: Address! }
type Post implements Node { id: ID! name: String title: String! author: User! tags: [[String!]!] }
type Address { city: String zip: Int }
union Result = User | Post | Address
enum E { RED GREEN BLUE }
scalar Date
"""
S_COV = """
type Query { i: I }
interface I { x: Int j: J }
interface J { a: Int }
type K implements J { a: Int k: Int }
type K2 implements J { a: Int }
type T implements I { x: Int! j: K! }
"""
S_ONE = """
type Query { i: I u: U }
interface I { a: [Int] }
type T implements I { a: [Int] b: String }
union U = T
"""

FIXED = [
    (S_BASIC, "{ user { id name address { city zip } } matrix cube e es d id ok }", None),
    (S_BASIC, "{ posts { id title author { name friends { id } } tags } }", None),
    (S_BASIC, "{ node { __typename id ... on User { nick address { city } } ... on Post { title } } }", None),
    (S_BASIC, "{ node { ... on Named { nick } ...F } search { __typename ... on Node { id } ... on Address { zip } } }\n"
              "fragment F on Node { name ... on Post { t: title } }", None),
    (S_BASIC, "{ a: user { id } a: user { name } user { address { city } } user { address { zip } ...G ...G } }\n"
              "fragment G on User { address { z2: zip } friends { ...H } }\nfragment H on User { id }", None),
    (S_BASIC, "query A { e } query B { posts { tags } }", "B"),
    (S_BASIC, "query A { e } query B { posts { tags } }", None),
    (S_BASIC, "query A { e }", "Nope"),
    (S_ONE, "{ i { a __typename ... on T { b } } u { ... on T { a b } ... on I { a } } }", None),
    (S_COV, "{ i { x } }", None),
    (S_COV, "{ i { j { a __typename } } }", None),
]
