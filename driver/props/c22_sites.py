"""C22 translator: list every expression in crates/*/src/**/*.rs (outside #[cfg(test)] modules) that
ENUMERATES a value of a hash-ordered type (crate::collections::HashMap/HashSet or std HashMap/HashSet), and emit
coq/theories/Det/Sites.v with one constructor `site_<file>_<fn>_<n>` per site.

The type resolution is syntactic (stated in the trusted base of C22):
  a name is hash-ordered inside a function if it is
    - a parameter or `let` binding annotated with a type whose head (after & / &mut / lifetimes) is HashMap/HashSet,
      or that mentions HashMap/HashSet inside a wrapper (Option, OnceLock, Result, Rc, Arc, Box, Cow, MaybeLazy, tuple),
    - a `let` binding initialised by a HashMap::/HashSet:: constructor call, or by a call of a function/method
      whose declared return type mentions HashMap/HashSet (any pattern: `let Ok(x) = f(..) else ..`),
  an expression `a.b` / `self.b` is hash-ordered if some struct of the same crate declares a field `b` whose type
  mentions HashMap/HashSet (outside the value position of an ordered container), and `e.f()` / `f()` if `f` is
  declared to return such a type.
  A site is an enumeration of such an expression E:  `for _ in E|&E|&mut E|E.iter()..`, `E.iter()`, `.iter_mut()`,
  `.keys()`, `.values()`, `.values_mut()`, `.into_iter()`, `.into_keys()`, `.into_values()`, `.drain(..)`, `.retain(..)`,
  `.extract_if(..)`, `X.extend(E)`, `T::from_iter(E)`.  Look-ups (get, contains, contains_key, insert, remove,
  entry, len, is_empty) are not sites.
A hash-ordered expression the scanner sees enumerated through a form it does not recognise cannot be reported;
what it does report but cannot attribute to a function is named `site_unknown_<file>_<n>`.
"""
import re
import sys
from pathlib import Path

HASH = re.compile(r"\bHash(?:Map|Set)\b")
ENUM_METHODS = ["iter", "iter_mut", "keys", "values", "values_mut", "into_iter", "into_keys", "into_values",
                "drain", "retain", "extract_if"]
IDENT = r"[A-Za-z_][A-Za-z0-9_]*"
ACCESSORS = "get_or_init|as_ref|as_mut|unwrap|expect|clone|borrow|borrow_mut|lock|read|write|unwrap_or_default|deref|to_owned"


def strip_code(src):
    """replace comments, string/char literals by spaces (same length, newlines kept)"""
    out = list(src)
    i, n = 0, len(src)

    def blank(a, b):
        for k in range(a, b):
            if out[k] != "\n":
                out[k] = " "
    while i < n:
        c = src[i]
        if src.startswith("//", i):
            j = src.find("\n", i)
            j = n if j < 0 else j
            blank(i, j)
            i = j
        elif src.startswith("/*", i):
            depth, j = 1, i + 2
            while j < n and depth:
                if src.startswith("/*", j):
                    depth += 1
                    j += 2
                elif src.startswith("*/", j):
                    depth -= 1
                    j += 2
                else:
                    j += 1
            blank(i, j)
            i = j
        elif c == '"' or (c == "r" and re.match(r'r#*"', src[i:i + 8]) and (i == 0 or not (src[i - 1].isalnum() or src[i - 1] == "_"))):
            if c == "r":
                m = re.match(r'r(#*)"', src[i:])
                end = '"' + m.group(1)
                j = src.find(end, i + len(m.group(0)))
                j = n if j < 0 else j + len(end)
            else:
                j = i + 1
                while j < n and src[j] != '"':
                    j += 2 if src[j] == "\\" else 1
                j += 1
            blank(i, j)
            i = j
        elif c == "'":
            # char literal or lifetime
            m = re.match(r"'(\\.[^']*|[^'\\])'", src[i:i + 12])
            if m:
                blank(i, i + len(m.group(0)))
                i += len(m.group(0))
            else:
                i += 1
        else:
            i += 1
    return "".join(out)


def remove_cfg_test(code):
    """blank out `#[cfg(test)] mod x { ... }` blocks and `#[test] fn` bodies"""
    out = code
    for m in list(re.finditer(r"#\[cfg\(test\)\]\s*(?:pub\s+)?mod\s+" + IDENT + r"\s*\{", code)):
        start = m.start()
        j = m.end()
        depth = 1
        while j < len(code) and depth:
            depth += {"{": 1, "}": -1}.get(code[j], 0)
            j += 1
        out = out[:start] + re.sub(r"[^\n]", " ", out[start:j]) + out[j:]
    return out


def mentions_hash(ty):
    """does the type mention HashMap/HashSet outside the parameters of an ordered container?"""
    t = ty
    # drop the parameter lists of ordered containers: their iteration order is not the hash order
    while True:
        m = re.search(r"\b(IndexMap|IndexSet|Vec|VecDeque|BTreeMap|BTreeSet)\s*<", t)
        if not m:
            break
        j, depth = m.end(), 1
        while j < len(t) and depth:
            depth += {"<": 1, ">": -1}.get(t[j], 0)
            j += 1
        t = t[:m.start()] + "Ordered" + t[j:]
    return bool(HASH.search(t))


def matching(code, i, open_, close):
    depth = 0
    while i < len(code):
        if code[i] == open_:
            depth += 1
        elif code[i] == close:
            depth -= 1
            if depth == 0:
                return i
        i += 1
    return len(code) - 1


def split_top(s, sep=","):
    parts, depth, cur = [], 0, ""
    for ch in s:
        if ch in "(<[{":
            depth += 1
        elif ch in ")>]}":
            depth -= 1
        if ch == sep and depth == 0:
            parts.append(cur)
            cur = ""
        else:
            cur += ch
    if cur.strip():
        parts.append(cur)
    return parts


class Crate:
    def __init__(self):
        self.hash_fields = set()
        self.hash_fns = set()


def collect_decls(code, crate):
    # struct fields
    for m in re.finditer(r"\bstruct\s+" + IDENT + r"[^;{(]*\{", code):
        end = matching(code, m.end() - 1, "{", "}")
        body = code[m.end():end]
        for f in split_top(body):
            fm = re.match(r"\s*(?:#\[[^\]]*\]\s*)*(?:pub(?:\([^)]*\))?\s+)?(" + IDENT + r")\s*:\s*(.+)", f, re.S)
            if fm and mentions_hash(fm.group(2)):
                crate.hash_fields.add(fm.group(1))
    # enum variants carrying a hash container, e.g. `Map(HashMap<..>)`: bindings in patterns `Self::Map(map)`
    # functions returning hash-ordered types
    for m in re.finditer(r"\bfn\s+(" + IDENT + r")\s*(?:<[^>]*>)?\s*\(", code):
        close = matching(code, m.end() - 1, "(", ")")
        rest = code[close + 1:close + 400]
        rm = re.match(r"\s*->\s*([^{;]+?)\s*(?:where\b|\{|;)", rest, re.S)
        if rm and mentions_hash(rm.group(1)):
            crate.hash_fns.add(m.group(1))


def functions(code):
    """yield (name, body_start, body_end, params_text)"""
    for m in re.finditer(r"\bfn\s+(" + IDENT + r")\s*(?:<[^>(]*>)?\s*\(", code):
        close = matching(code, m.end() - 1, "(", ")")
        j = close + 1
        # skip return type / where clause up to `{` or `;`
        depth = 0
        while j < len(code):
            ch = code[j]
            if ch in "<(":
                depth += 1
            elif ch in ">)" and not (ch == ">" and code[j - 1] == "-"):
                depth -= 1
            elif ch == ";" and depth <= 0:
                break
            elif ch == "{" and depth <= 0:
                break
            j += 1
        if j >= len(code) or code[j] != "{":
            continue
        end = matching(code, j, "{", "}")
        yield m.group(1), j, end, code[m.end():close]


def local_hash_names(code, fstart, fend, params, crate):
    """name -> position from which the binding is in scope (a `let` binds after its own statement, so a
    shadowed earlier binding of the same name used in the initialiser is not taken for the new one)"""
    names = {}

    def add(name, pos):
        names.setdefault(name, pos)
    for p in split_top(params):
        pm = re.match(r"\s*(?:mut\s+)?(" + IDENT + r")\s*:\s*(.+)", p, re.S)
        if pm and mentions_hash(pm.group(2)):
            add(pm.group(1), fstart)
    body = code[fstart:fend]
    for m in re.finditer(r"\blet\s+(.+?)=(?!=)", body, re.S):
        pat = m.group(1)
        # the initialiser: up to the `;` at depth 0
        j, depth = m.end(), 0
        while j < len(body):
            ch = body[j]
            if ch in "({[":
                depth += 1
            elif ch in ")}]":
                depth -= 1
            elif ch == ";" and depth <= 0:
                break
            j += 1
        init = body[m.end():j]
        ann = None
        if ":" in pat:
            # annotation (not a `::` path)
            pm = re.match(r"\s*(?:mut\s+)?(" + IDENT + r")\s*:\s*(?!:)(.+)", pat, re.S)
            if pm:
                ann = pm.group(2)
                if mentions_hash(ann):
                    add(pm.group(1), fstart + j)
                continue
        hash_init = bool(re.match(r"\s*(?:&\s*(?:mut\s+)?)?(?:\w+::)*Hash(?:Map|Set)\s*::", init)) or \
            bool(re.match(r"\s*(?:\w+::)*Hash(?:Map|Set)\s*::\s*<", init))
        # a call of a function / method returning a hash-ordered type, as the whole initialiser (modulo ?, .clone(), else)
        cm = re.match(r"\s*(?:&\s*)?(?:[\w:.&*()\[\]]*?[.:])?(" + IDENT + r")\s*\((?:[^()]|\([^()]*\))*\)\s*(?:\?|\.clone\(\)|\.unwrap\(\)|\.unwrap_or_default\(\))?\s*(?:else\b.*)?$",
                      init, re.S)
        # an accessor chain on a hash-ordered field: `let m = self.lazy.get_or_init(..)`, `let m = &self.map;`
        am = re.match(r"\s*(?:&\s*(?:mut\s+)?|\*\s*)*[\w.]*?\.\s*(" + IDENT + r")\s*((?:\.\s*(?:" + ACCESSORS + r")\s*\((?:[^()]|\([^()]*\))*\)\s*\??)*)\s*$",
                      init, re.S)
        field_init = bool(am and am.group(1) in crate.hash_fields)
        if hash_init or field_init or (cm and cm.group(1) in crate.hash_fns):
            for ident in re.findall(IDENT, pat):
                if ident not in ("mut", "Ok", "Some", "Err", "ref", "let"):
                    add(ident, fstart + j)
    # closure parameters and match-arm bindings that name a hash-carrying enum variant: `Self::Map(map)`
    for m in re.finditer(r"\b(?:\w+::)+Map\s*\(\s*(" + IDENT + r")\s*\)", body):
        add(m.group(1), fstart + m.start())
    return names


def scan_file(path, rel, code, crate):
    sites = []
    fns = list(functions(code))

    def enclosing(pos):
        best = None
        for name, a, b, _ in fns:
            if a <= pos <= b and (best is None or a >= best[1]):
                best = (name, a, b)
        return best

    locals_cache = {}

    def is_hash_expr(expr, pos):
        e = expr.strip()
        e = re.sub(r"^(?:&\s*mut\s+|&\s*|\*\s*)+", "", e)
        e = re.sub(r"^\(\s*(.*)\s*\)$", r"\1", e)
        e = re.sub(r"^(?:&\s*mut\s+|&\s*|\*\s*)+", "", e)
        # accessors that hand out the same container: `f().unwrap()`, `x.lock().unwrap()`, `m.clone()`, `e?`
        while True:
            e2 = re.sub(r"(?:\?|\.\s*(?:" + ACCESSORS + r")\s*\((?:[^()]|\([^()]*\))*\))\s*$", "", e)
            if e2 == e:
                break
            e = e2.strip()
        enc = enclosing(pos)
        names = {}
        if enc:
            key = enc[1]
            if key not in locals_cache:
                f = [x for x in fns if x[1] == key][0]
                locals_cache[key] = local_hash_names(code, f[1], f[2], f[3], crate)
            names = locals_cache[key]
        if re.fullmatch(IDENT, e):
            return e in names and names[e] <= pos
        m = re.fullmatch(r"[\w.:()&*\[\]]*?\.\s*(" + IDENT + r")", e)
        if m and m.group(1) in crate.hash_fields:
            return True
        m = re.fullmatch(r"(?:[\w.:()&*\[\]]*?[.:])?(" + IDENT + r")\s*\((?:[^()]|\([^()]*\))*\)", e)
        if m and m.group(1) in crate.hash_fns:
            return True
        return False

    def receiver_before(dot):
        """the postfix expression that ends just before position `dot`"""
        j = dot - 1
        while j >= 0 and code[j].isspace():
            j -= 1
        end = j + 1
        depth = 0
        while j >= 0:
            ch = code[j]
            if ch in ")]":
                depth += 1
            elif ch in "([":
                if depth == 0:
                    break
                depth -= 1
            elif depth == 0 and not (ch.isalnum() or ch in "_.:&*?" or ch.isspace()):
                break
            elif depth == 0 and ch.isspace():
                # allow whitespace only around dots (method chains on several lines)
                k = j
                while k >= 0 and code[k].isspace():
                    k -= 1
                if not (code[k] == "." or code[end - 1 if end - 1 < len(code) else k] == "."):
                    nxt = code[j + 1:end].lstrip()
                    if not nxt.startswith("."):
                        break
            j -= 1
        return code[j + 1:end]

    found = []
    for m in re.finditer(r"\.\s*(" + "|".join(ENUM_METHODS) + r")\s*\(", code):
        recv = receiver_before(m.start())
        if is_hash_expr(recv, m.start()):
            found.append((m.start(), f"{recv.strip()}.{m.group(1)}()"))
    for m in re.finditer(r"\bfor\s+(?:[^{;]*?)\s+in\s+([^{]+?)\s*\{", code):
        expr = m.group(1)
        if is_hash_expr(expr, m.start(1)):
            found.append((m.start(1), f"for _ in {expr.strip()}"))
    for m in re.finditer(r"\.\s*extend\s*\(", code):
        close = matching(code, m.end() - 1, "(", ")")
        arg = code[m.end():close]
        if is_hash_expr(arg, m.end()):
            found.append((m.end(), f"extend({arg.strip()})"))
    for m in re.finditer(r"::\s*from_iter\s*\(", code):
        close = matching(code, m.end() - 1, "(", ")")
        arg = code[m.end():close]
        if is_hash_expr(arg, m.end()):
            found.append((m.end(), f"from_iter({arg.strip()})"))
    found.sort()
    seen_pos = set()
    counters = {}
    for pos, text in found:
        if pos in seen_pos:
            continue
        seen_pos.add(pos)
        enc = enclosing(pos)
        fname = enc[0] if enc else None
        line = code.count("\n", 0, pos) + 1
        fid = re.sub(r"[^A-Za-z0-9]", "_", rel)
        key = (fid, fname)
        counters[key] = counters.get(key, 0) + 1
        ident = f"site_{fid}_{fname}_{counters[key]}" if fname else f"site_unknown_{fid}_{counters[key]}"
        sites.append({"id": ident, "file": rel, "line": line, "fn": fname, "expr": re.sub(r"\s+", " ", text)})
    return sites


def scan(repo):
    repo = Path(repo)
    sites = []
    for cr in sorted((repo / "crates").iterdir()):
        src = cr / "src"
        if not src.is_dir():
            continue
        crate = Crate()
        files = []
        for f in sorted(src.rglob("*.rs")):
            rel = str(f.relative_to(repo / "crates"))
            if "/tests/" in rel or rel.endswith("/tests.rs"):
                continue
            code = remove_cfg_test(strip_code(f.read_text()))
            files.append((f, rel, code))
            collect_decls(code, crate)
        for f, rel, code in files:
            sites += scan_file(f, rel, code, crate)
    return sites


def render_coq(sites):
    ids = [s["id"] for s in sites]
    lines = [
        "(* GENERATED by driver/props/c22_sites.py from the working tree of the repository: every expression of",
        "   crates/*/src that enumerates a HashMap/HashSet.  Regenerated on every run of ./check C22; do not edit.",
        "   A new constructor here makes the `match` of Det/Covered.v non-exhaustive: that is the proof obligation",
        "   a new iteration site breaks. *)",
        "From Coq Require Import List.",
        "Import ListNotations.",
        "",
        "Inductive site_id : Set :=",
    ]
    for s in sites:
        lines.append(f"| {s['id']}    (* {s['file']} fn {s['fn']}: {s['expr']} *)")
    if not sites:
        lines.append("| site_none")
    lines[-1] += "."
    lines += ["", "Definition generated_sites : list site_id :=", "  [" + ";\n   ".join(ids or ["site_none"]) + "].", ""]
    return "\n".join(lines)


if __name__ == "__main__":
    ss = scan(sys.argv[1] if len(sys.argv) > 1 else "/repo")
    for s in ss:
        print(f"{s['id']}  {s['file']}:{s['line']}  {s['expr']}")
    if len(sys.argv) > 2:
        Path(sys.argv[2]).write_text(render_coq(ss))
