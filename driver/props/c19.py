"""C19 — executable documents and field sets round-trip through serialization."""
import json
from common import *
from props import exec_gen as G
from props import exec_util as U


def kv(line):
    return dict(x.split("=", 1) for x in line.split(" "))


def cmp_doc(i, m):
    iv, mv = kv(i), kv(m)
    if iv["build"] != mv["build"]:
        return False
    # the model must satisfy its own theorem on every case within the theorem's hypothesis (closed schema,
    # or none): on a schema that is not closed from_ast drops fields without recording an error
    if mv.get("reorder") == "f" and mv.get("closed") != "f":
        return False
    if iv["valid"] != "-" and mv.get("closed") != "t":   # hypothesis of the theorem: valid schemas are closed
        return False
    return iv["ast"] == "unparseable" or iv["ast"] == mv["ast"]


def cmp_fs(i, m):
    iv, mv = kv(i), kv(m)
    if iv["build"] != mv["build"] or mv.get("same") == "f":
        return False
    return iv["sels"] == "unparseable" or iv["sels"] == mv["sels"]


def cmp_mixed(i, m):
    iv, mv = kv(i), kv(m)
    if iv["valid"] != "t":
        return True                        # nothing observable: the API returns only diagnostics
    return mv["build"] == "ok" and mv.get("reorder") != "f" and (iv["ast"] == "unparseable" or iv["ast"] == mv["ast"])


MIXED_EXTRA = [
    "type Query { a: Int }\n{ a }\n",
    "query Q { a { id } }\ntype Query { a: A }\nfragment F on A { id }\ntype A { id: ID }\nquery R { a { ...F } }\n",
    "fragment F on Query { a }\nschema { query: Query }\ntype Query { a: Int }\n{ ...F ... { a } ... on Query { a } }\n",
]


def run(ctx):
    props = check_props(ctx.pid)
    model = build_model()
    impl = build_impl()
    quick = ctx.tier == "quick"
    rng = ctx.rng
    # ---- documents
    n_s, per = (100, 40) if quick else (400, 60)
    entries, pairs = U.gen_pairs(ctx, impl, n_s, per, [0.0, 0.0, 0.0, 0.0, 0.05, 0.15], broken_share=0.05, schemaless_share=0.1)
    # schemas that are not closed (undefined root / field types): fields are dropped without a build error,
    # the left-inverse theorem does not apply and the comparison is of the printed partial document only
    for stext, dtext in [
        ("type Query { a: Int, m: Missing, q: Query }\nextend schema { mutation: Nowhere }",
         "mutation M { a }\nquery Q { a m { x } q { m { y } a } }\n"),
        ("type Query { a: Int, m: [Missing!] }", "{ m { x } a ... on Query { m { y } } }\n"),
    ]:
        sc = G.Sch()
        sc.text = stext
        pairs.append((U.schema_terms(impl, [sc])[0], dtext))
    cases, dropped = U.make_cases(impl, pairs)
    rows = ctx.correspond(impl, model, "xroundtrip", cases, describe=U.describe_case, compare=cmp_doc,
                          nontrivial=lambda c, o: "valid=t" in o)
    fam = ctx.cov["families"]["xroundtrip"]
    fam["documents_with_syntax_errors_dropped"] = dropped
    fam["valid_documents_round_tripped_under_6_configurations"] = sum(1 for _, i, _ in rows if " valid=t " in i)
    fam["invalid_or_schemaless"] = sum(1 for _, i, _ in rows if " valid=t " not in i)
    fam["schema_not_closed_field_dropped_silently"] = sum(1 for _, _, m in rows if "reorder=f" in m and "closed=f" in m)
    fam["printed_partial_document_unparseable"] = sum(1 for _, i, _ in rows if "ast=unparseable" in i)
    for c, i, m in rows[:: max(1, len(rows) // 2)]:
        ctx.sample({"family": "xroundtrip", "case": U.describe_case(c), "impl": i[:400], "model": m[:400]}, limit=2)
    # ---- field sets against object and interface parents
    fcases = []
    valid_entries = [e for e in entries if e[3]]
    nfs = 25 if quick else 40
    texts, meta = [], []
    for e in valid_entries:
        for _ in range(nfs):
            ty = rng.choice(["A", "B", "C", "I", "I", e[0].roots["query"], "U"])
            body = G.field_set(e[0], rng, ty, chaos=rng.choice([0.0, 0.0, 0.0, 0.1]))
            texts.append("{ " + body + " }")
            meta.append((e, ty, body))
    asts = U.ast_terms(impl, texts)
    fdropped = 0
    for (e, ty, body), (_, at) in zip(meta, asts):
        if at is None:
            fdropped += 1
            continue
        # the AST of `{ body }` is one anonymous query: take its selection list
        sels = at[at.index(",[", at.index("DOp(")):]          # ... ,vars,dirs,sels)]
        # DOp(q,N,[],[],<sels>) : strip the fixed prefix and the closing ")]"
        prefix = "[DOp(q,N,[],[],"
        if not at.startswith(prefix):
            fdropped += 1
            continue
        sels = at[len(prefix):-2]
        src = body if rng.random() < 0.7 else "{ " + body + " }"
        fcases.append(f"{e[1]} {hexs(ty)} {hexs(src)} {e[2]} {sels}")
    rows = ctx.correspond(impl, model, "xfieldset", fcases, compare=cmp_fs,
                          describe=lambda c: {"schema": unhexs(c.split(' ')[0]), "type": unhexs(c.split(' ')[1]), "field_set": unhexs(c.split(' ')[2])},
                          nontrivial=lambda c, o: "valid=t" in o)
    fam = ctx.cov["families"]["xfieldset"]
    fam["dropped"] = fdropped
    fam["valid_field_sets_round_tripped"] = sum(1 for _, i, _ in rows if " valid=t " in i)
    fam["on_interface_parent"] = sum(1 for c, i, _ in rows if " valid=t " in i and c.split(" ")[1] == hexs("I"))
    for c, i, m in rows[:1]:
        ctx.sample({"family": "xfieldset", "field_set": unhexs(c.split(" ")[2]), "impl": i[:300], "model": m[:300]}, limit=3)
    # ---- mixed documents: schema and executable definitions in one text
    mixed = list(MIXED_EXTRA)
    for e in valid_entries[: (40 if quick else 150)]:
        for _ in range(3):
            doc = G.DocGen(e[0], rng, rng.choice([0.0, 0.0, 0.05])).doc(depth=3)
            parts = [p for p in e[0].text.split("\n") if p.strip()] + [p for p in doc.split("\n") if p.strip()]
            if rng.random() < 0.5:
                rng.shuffle(parts)
            mixed.append("\n".join(parts) + "\n")
    hm = [hexs(t) for t in mixed]
    sd = run_family(impl, "schema_dump", ["b " + h for h in hm])
    ad = U.ast_terms(impl, mixed)
    mcases = []
    for h, s, (_, at) in zip(hm, sd, ad):
        if at is None:
            continue
        term = s.split(" ")[-1]
        mcases.append(f"{h} {term} {at}")
    rows = ctx.correspond(impl, model, "xmixed", mcases, compare=cmp_mixed,
                          describe=lambda c: unhexs(c.split(" ")[0]), nontrivial=lambda c, o: "valid=t" in o)
    ctx.cov["families"]["xmixed"]["valid_mixed_texts_round_tripped"] = sum(1 for _, i, _ in rows if i.startswith("valid=t"))
    ctx.cov["rule"] = (
        f"documents: {n_s} generated schemas x {per} documents (4 of 6 valid by construction: aliases, arguments of every value "
        "kind, variables, directives at every location, inline fragments with and without type condition, fragments, "
        "anonymous/named operations in shuffled order; the rest with errors), each valid one serialized under the 6 "
        "configurations, re-parsed, re-validated and compared; field sets: generated selection sets (with and without outer "
        "braces) against object, interface, union and root parents; mixed: schema and document definitions interleaved in one "
        "text. Model side: to_ast of the built document equals the AST of the printed text. Non-trivial = valid input.")
    ctx.cov["exhaustive"] = False
    ctx.assumptions += [
        "the text-level round trip (AST printing and re-parsing) is C08's subject; here it is exercised by the oracle only",
        "ExecutableDocument::to_ast is pub(crate): it is observed as the AST of the default serialization re-parsed by the real parser",
        "validation with a schema has no model: the model side covers from_ast and to_ast, the oracle covers validity",
    ]
    return ctx.finish(props)


def replay(ctx, path):
    r = json.load(open(path))
    model = build_model()
    impl = build_impl()
    fam, case = r["family"], r["case"]
    print("case :", json.dumps(r.get("case_readable", ""), ensure_ascii=False)[:3000])
    print("impl :", run_family(impl, fam, [case])[0][:3000])
    print("model:", run_family(model, fam, [case])[0][:3000])
    return 0
