"""C33 — apollo-smith ResponseBuilder: generated responses match the operation's shape.

Tie: `smith_response` — for a (schema, operation, null ratio, list bounds) and a batch of choice streams, the
generated JSON (canonical text) or `exhausted`, model (Smith/Response.v over the dumps produced by the real
parser/schema builder) against the real ResponseBuilder driven by a RandomProvider that replays the stream.
Oracle (implementation alone): an independent shape checker over the real Schema/ExecutableDocument and
execution of the operation with apollo-compiler's resolver API serving the generated data.
`smith_class` ties the known-finding predicate (rs_known_covariant) to its evaluation on the real data."""
import json
from common import *
from props.c33_util import *

KNOWN = "covariant-field-selected-via-interface"

CONFIGS = [("none", 0, 2), ("0/1", 0, 0), ("1/2", 0, 2), ("1/1", 1, 3), ("1/2", 1, 3), ("none", 1, 3),
           ("1/3", 0, 0), ("2/3", 0, 2)]


def prepare(ctx, impl, pairs):
    """pairs: (schema_src, doc_src, opname) -> list of dicts with dumps and the class flag; invalid ones dropped"""
    outs = run_family(impl, "smith_prepare", [f"{hexs(s)} {hexs(d)}" for s, d, _ in pairs])
    good, bad = [], 0
    for (s, d, op), o in zip(pairs, outs):
        p = o.split(" ")
        if p[0] != "ok":
            bad += 1
            ctx.sample({"rejected_input": d[:200], "why": unhexs(p[1])[:200] if len(p) > 1 else o}, limit=3)
            continue
        good.append({"schema": s, "doc": d, "op": op, "sdump": p[1], "adump": p[2]})
    return good, bad


def line_of(pair, cfg, streams):
    nul, mn, mx = cfg
    st = ";".join(".".join(map(str, x)) if x else "-" for x in streams)
    op = hexs(pair["op"]) if pair["op"] is not None else "-"
    return f"{nul} {mn} {mx} {st} {op} {hexs(pair['schema'])} {hexs(pair['doc'])} {pair['sdump']} {pair['adump']}"


def describe(case):
    p = case.split(" ")
    return {"null_ratio": p[0], "list_bounds": [p[1], p[2]], "streams": p[3][:400],
            "operation": None if p[4] == "-" else unhexs(p[4]), "schema": unhexs(p[5]), "document": unhexs(p[6])}


def run(ctx):
    props = check_props(ctx.pid)
    model = build_model()
    impl = build_impl()
    quick = ctx.tier == "quick"
    rng = ctx.rng

    # ---- inputs: fixed pairs first, then generated ones
    raw = [(s, d, op) for s, d, op in FIXED]
    n_schemas = 80 if quick else 160
    docs_per = 3 if quick else 4
    for i in range(n_schemas):
        sch = gen_schema(rng, covariant=(i % 5 == 4))
        for _ in range(docs_per):
            d, op = gen_document(rng, sch)
            raw.append((sch.sdl(), d, op))
    pairs, rejected = prepare(ctx, impl, raw)
    ctx.cov["inputs"] = {"pairs": len(pairs), "rejected_by_validation": rejected, "fixed": len(FIXED)}

    # ---- the class predicate agrees between Coq definition and real data structures
    ccases = [f"{hexs(p['op']) if p['op'] is not None else '-'} {hexs(p['schema'])} {hexs(p['doc'])} {p['sdump']} {p['adump']}"
              for p in pairs]
    rows = ctx.correspond(impl, model, "smith_class", ccases,
                          describe=lambda c: {"schema": unhexs(c.split(' ')[1]), "document": unhexs(c.split(' ')[2])})
    for p, (_, io, _) in zip(pairs, rows):
        p["cov"] = io.startswith("cov=1")
    ctx.cov["inputs"]["in_known_class"] = sum(1 for p in pairs if p["cov"])
    covset = {(hexs(p["schema"]), hexs(p["doc"])) for p in pairs if p["cov"]}

    def classify(c, iobs, mobs):
        f = c.split(" ")
        # only failures of the oracle on agreed observations, only inside the class
        return KNOWN if (f[5], f[6]) in covset and iobs == mobs else None

    stats = {"streams": 0, "ok": 0, "exhausted": 0, "other": 0, "with_null": 0, "with_nested_list": 0}

    def account(rows):
        for _, io, _ in rows:
            for r in io.split(";"):
                stats["streams"] += 1
                if r.startswith("ok:"):
                    stats["ok"] += 1
                    stats["with_null"] += "null" in r
                    stats["with_nested_list"] += "[[" in r
                elif r == "exhausted":
                    stats["exhausted"] += 1
                else:
                    stats["other"] += 1

    # ---- (1) exhaustive over streams in {0,1,2}^<=L by depth-first extension of exhausted prefixes
    L = 6 if quick else 8
    cap = 400 if quick else 1500          # per (pair, config) and round; beyond it the frontier is sampled
    states = []
    for i, p in enumerate(pairs):
        for j in range(2 if quick else 3):
            states.append({"pair": p, "cfg": CONFIGS[(i + j * 3) % len(CONFIGS)], "frontier": [()], "sampled": False})
    exhaustive_states = 0
    for depth in range(L + 1):
        active = [st for st in states if st["frontier"]]
        if not active:
            break
        lines = [line_of(st["pair"], st["cfg"], st["frontier"]) for st in active]
        rows = ctx.correspond(impl, model, "smith_response", lines, classify=classify, describe=describe,
                              nontrivial=lambda c, o: "ok:" in o)
        account(rows)
        for st, (_, io, _) in zip(active, rows):
            res = io.split(";")
            nxt = []
            if depth < L and len(res) == len(st["frontier"]):
                for stream, r in zip(st["frontier"], res):
                    if r == "exhausted":
                        nxt += [stream + (c,) for c in (0, 1, 2)]
            if len(nxt) > cap:
                nxt = rng.sample(nxt, cap)
                st["sampled"] = True
            st["frontier"] = nxt
    exhaustive_states = sum(1 for st in states if not st["sampled"])

    # ---- (2) long random streams (large choices: list lengths, 3rd union member, all scalar generators)
    lines = []
    per = 6 if quick else 40
    for i, p in enumerate(pairs):
        for j in range(2 if quick else 4):
            cfg = CONFIGS[(i * 5 + j) % len(CONFIGS)]
            streams = []
            for k in range(per):
                hi = rng.choice([2, 3, 5, 7, 100, 1000])
                streams.append(tuple(rng.randint(0, hi) for _ in range(rng.choice([10, 40, 200]))))
            lines.append(line_of(p, cfg, streams))
    rows = ctx.correspond(impl, model, "smith_response", lines, classify=classify, describe=describe,
                          nontrivial=lambda c, o: "ok:" in o)
    account(rows)
    for c, io, mo in rows[:: max(1, len(rows) // 4)]:
        d = describe(c)
        ctx.sample({"family": "smith_response", "document": d["document"][:300], "null_ratio": d["null_ratio"],
                    "list_bounds": d["list_bounds"], "first_result": io.split(";")[0][:300]}, limit=6)

    ctx.cov["streams"] = stats
    ctx.cov["exhaustive_stream_states"] = {"states": len(states), "not_sampled": exhaustive_states, "max_len": L}
    ctx.cov["rule"] = (
        f"{len(FIXED)} fixed (schema, operation) pairs and {n_schemas} generated schemas x {docs_per} generated valid "
        "operations (interfaces implementing interfaces, 1-3 possible types per abstract type, unions, enums, custom "
        "scalars, list nesting to depth 3, aliases merging sub-selections, inline fragments, named fragments spread "
        "repeatedly, __typename, several operations with and without operationName; every 5th schema narrows "
        "implementer field types); per pair several (null ratio, list bounds) configurations; choice streams: every "
        f"stream over {{0,1,2}} of length <= {L} (explored as the tree of exhausted prefixes, frontier capped at {cap} "
        "per round) plus long random streams with choices up to 1000.  A case is a batch of streams; it is "
        "non-trivial if at least one stream yields a response.")
    ctx.cov["exhaustive"] = False
    ctx.assumptions += [
        "documents are valid, without variables, @skip/@include and without __schema/__type; schemas valid",
        "the harness's RandomProvider maps a choice into the requested range by reduction modulo the range size "
        "(every in-range answer of any provider is reached by some choice); floats only take the values -1, 0, 1",
        "ResponseBuilder::with_partial_data and custom generators are not modelled and not exercised",
        "C33_replay (executing the operation over the generated data reproduces it) is tie-only: no execution model "
        "was available; the harness executes with apollo-compiler's resolver API",
    ]
    return ctx.finish(props)


def replay(ctx, path):
    r = json.load(open(path))
    model = build_model()
    impl = build_impl()
    fam, case = r["family"], r["case"]
    print("case :", json.dumps(r.get("case_readable", case), ensure_ascii=False)[:3000])
    i = run_family(impl, fam, [case])[0]
    m = run_family(model, fam, [case])[0]
    iobs, oracle = split_oracle(i)
    if fam == "smith_response":
        streams = case.split(" ")[3].split(";")
        for st, a, b in zip(streams, iobs.split(";"), m.split(";")):
            mark = "  " if a == b else "!="
            print(f"{mark} stream {st}\n     impl : {a}\n     model: {b}")
        if oracle and oracle != "ok":
            idx, why = oracle[4:].split(":", 1)
            print(f"oracle fails on stream #{idx} ({streams[int(idx)]}): {unhexs(why)}")
        else:
            print("oracle:", oracle)
    else:
        print("impl :", i)
        print("model:", m)
    return 0
