"""C22 — outputs are deterministic across processes regardless of per-process hash seeds."""
import json
import os
import re
from common import *
from props import c21_gen as G
from props import c22_sites

SITES_V = COQ / "theories" / "Det" / "Sites.v"
COVERED_V = COQ / "theories" / "Det" / "Covered.v"

SCHEMA = """type Query implements Node & Named { id: ID! name: String a(x: Int, y: [Int!], i: In): Query
  many(%s): Int list: [Query!]! u: U e: E f: Float b: Boolean }
interface Node { id: ID! }
interface Named implements Node { id: ID! name: String }
type Other implements Node { id: ID! o: Int }
type Third implements Named & Node { id: ID! name: String t: Int }
union U = Query | Other | Third
enum E { A B C }
input In { a: Int! = 1 b: [In!] c: E }
directive @d(a: Int) repeatable on FIELD | QUERY | FRAGMENT_SPREAD | INLINE_FRAGMENT | FRAGMENT_DEFINITION | VARIABLE_DEFINITION
""" % ", ".join(f"a{i}: Int" for i in range(26))


def corpus(rng, quick):
    """(label, schema text, document text): weighted to the places where hash-ordered containers are used"""
    out = []
    add = lambda label, d, s=SCHEMA: out.append((label, s, d))
    letters = "abcdefghijklmnopqrstuvwxyz"
    # unused variables (the HashMap of validate_unused_variables), some used, several operations
    for k in (3, 4, 5, 8, 12, 26):
        vs = ", ".join(f"${letters[i]}: Int" for i in range(k))
        add(f"unused-vars-{k}", f"query Q({vs}) {{ id }}")
        add(f"unused-vars-{k}-some-used", f"query Q({vs}) {{ a(x: $a) {{ id }} ...F }} fragment F on Query {{ a(x: $c) {{ id }} }}")
        add(f"unused-vars-{k}-two-ops", f"query Q({vs}) {{ id }} query R({vs}, $zz: Int) {{ name }}")
        add(f"unused-vars-{k}-one-line-dupes", f"query Q({vs}, {vs}) {{ id }}")
    # unused fragments
    for k in (3, 5, 10, 30):
        frs = " ".join(f"fragment F{i} on Query {{ id }}" for i in range(k))
        add(f"unused-frags-{k}", "{ id } " + frs)
        add(f"unused-frags-{k}-some-used", "{ ...F0 ...F2 } " + frs)
    # more than 20 arguments: ArgumentLookup::Map in field merging
    args = ", ".join(f"a{i}: {i}" for i in range(26))
    rargs = ", ".join(f"a{i}: {i}" for i in reversed(range(26)))
    args2 = ", ".join(f"a{i}: {i + (i == 13)}" for i in range(26))
    add("many-args-same", f"{{ many({args}) many({rargs}) }}")
    add("many-args-conflict", f"{{ many({args}) many({args2}) }}")
    add("many-args-missing", "{ many(%s) many(%s) }" % (args, ", ".join(f"a{i}: {i}" for i in range(21))))
    add("many-args-undefined", "{ many(%s) }" % ", ".join(f"z{i}: {i}" for i in range(25)))
    add("many-args-duplicated", "{ many(%s, %s) }" % (args, args))
    # deep merges with aliases and fragments
    add("merge-deep", "{ a { a { a { id name } } } a { a { a { id n: name } } } ...M } fragment M on Query { a { a { a { name: id } } } }")
    add("merge-conflicts", "{ x: id x: name y: id y: f ...M } fragment M on Query { x: b y: e list { x: id x: name } }")
    add("merge-types", "{ u { ... on Query { v: id } ... on Other { v: o } ... on Third { v: t } } }")
    # several undefined things on one line, several diagnostics at one offset
    add("undefined-one-line", "{ zz yy ww(a: $u, b: $v) ...Nope @nod @nod2 a(q: 1, r: 2) { zz } }")
    add("undefined-same-offset", "query($v: Zz = {a: $v}) @nod(a: $w) { a(x: $v, x: $v) @d @nod { id id: name } }")
    add("directives-repeated", "query @d @d(a: 1) @d(a: $z) { id @d @d ... @d @d { id } ...F @d @d } fragment F on Query @d @d { id }")
    add("input-objects", "{ a(i: {a: 1, a: 2, zz: 3, b: [{zz: 1}, {a: null}], c: D}) { id } }")
    add("variables-types", "query($a: Zz, $b: Query, $c: [In!]! = [{a: 1}], $d: E = D, $a: Int) { a(i: $c, x: $d) { id } }")
    # introspection with variables and fragments
    add("introspection", "query($n: String = \"Query\") { __type(name: $n) { name fields { name args { name } } possibleTypes { name } } "
                         "__schema { types { name kind } directives { name locations } } __typename }")
    add("subscription", "subscription { a { id } b: a { id } ... { __typename } }",
        SCHEMA + "type Subscription { a: Query }\n")
    # schema side: many diagnostics
    bad_schema = SCHEMA + """type Bad implements Node & Missing & Named { x: Zz y(a: Yy, a: Int): Ww __z: Int }
extend type Nope { a: Int } scalar Int input Rec { r: Rec! s: Rec2! } input Rec2 { r: Rec! }
directive @loop(a: Int @loop) on ARGUMENT_DEFINITION enum Empty { } union V = Int | Zz | Query | Query
type Query { again: Int } interface I2 implements I3 { a: Int } interface I3 implements I2 { a: Int }
"""
    add("bad-schema", "{ id zz }", bad_schema)
    for label, s, d in G.valid_sources():
        out.append((label, s, d))
    # the C21 structure corpus (a sample)
    structure = (G.input_sources(rng, True)[:12] + G.dir_sources(rng, True)[:12])
    for label, text in structure:
        out.append((label, text, "{ x }"))
    for label, text in (G.frag_sources(rng, True)[10:22] + G.walk_sources(rng, True)[-12:]):
        out.append((label, "type Query { a: Query b: Query c: Query x: Int y: Int }\ntype Mutation { a: Query x: Int m: Mutation }\n"
                           "type Subscription { a: Query x: Int s: Subscription }\n"
                           "directive @defer(label: String, if: Boolean! = true) on FRAGMENT_SPREAD | INLINE_FRAGMENT\n", text))
    # random documents over the schema
    fields = ["id", "name", "f", "b", "e", "zz", "list { id }", "a { id }", "a(x: $a) { name }", "u { __typename }",
              "many(a0: 1)", "n: id", "n: name", "...F", "...G", "... on Other { o }", "... @d { id }", "id @d @nod"]
    for i in range(120 if quick else 600):
        nv = rng.randint(0, 8)
        vs = ", ".join(f"${letters[j]}: {rng.choice(['Int', 'In', 'E', 'Zz', '[Int!]'])}" for j in range(nv))
        body = " ".join(rng.choice(fields) for _ in range(rng.randint(1, 8)))
        frs = " ".join(f"fragment {n} on {rng.choice(['Query', 'Other', 'Node', 'Zz'])} {{ {' '.join(rng.choice(fields) for _ in range(rng.randint(1, 4)))} }}"
                       for n in rng.sample(["F", "G", "H", "I", "J"], rng.randint(0, 5)))
        add(f"random-{i}", f"query Q{'(' + vs + ')' if vs else ''} {{ {body} }} {frs}")
    return out


REVALIDATE = [
    "type Query { x: String }", "type Query { x: Int }", "type Query { x: Boolean y: String }",
    "type Query { x: Q2 } type Q2 { y: Q2 }", "type Query { x: ID f: Float }", "type Query { x: [String!]! }",
    "schema { query: R } type R { a(x: Boolean): R }", "type Query { e: E } enum E { A }",
]


def smith_cases(rng, quick):
    """(label, mode, bytes, seed document or None, has implements cycle)"""
    out = []
    dists = []
    for n in (0, 1, 7, 64, 500, 3000, 20000):
        dists.append((f"uniform-{n}", bytes(rng.randrange(256) for _ in range(n))))
        dists.append((f"zeros-{n}", bytes(n)))
        dists.append((f"ff-{n}", b"\xff" * n))
        dists.append((f"ascending-{n}", bytes(i % 256 for i in range(n))))
        dists.append((f"small-alphabet-{n}", bytes(rng.choice(b"\x00\x01\x02\x7f\x80\xff") for _ in range(n))))
        dists.append((f"pattern-{n}", (b"\x13\x37\xc0\xde\x00\xff" * (n // 6 + 1))[:n]))
    for i in range(30 if quick else 200):
        dists.append((f"random-{i}", bytes(rng.randrange(256) for _ in range(rng.choice([200, 1000, 5000])))))
    for label, b in dists:
        out.append((f"new-{label}", "new", b, None, False))
    acyclic = ("interface A { a: Int } interface B implements A { a: Int b: Int } interface C implements B & A { a: Int b: Int c: Int } "
               "type Query implements C & B & A { a: Int b: Int c: Int }")
    cyclic = ("interface A implements B { a: Int } interface B implements A { b: Int } interface C implements A { c: Int } "
              "interface D implements C { d: Int } interface E implements D { e: Int } type Query { x: Int }")
    selfc = "interface A implements A { a: Int } interface B implements A { b: Int } type Query { x: Int }"
    for label, b in dists[:12] + dists[-4:]:
        out.append((f"with-acyclic-{label}", "with", b, acyclic, False))
    # seed documents whose implements graph has a cycle: topo_order_parents_first takes its fallback branch (which
    # enumerated a std HashMap before the repair of smith_implements_cycle_order; now node-index = insertion order)
    cyclic3 = ("interface A implements C { a: Int } interface B implements A { b: Int } interface C implements B { c: Int } "
               "interface F implements C & A { f: Int } type T implements A & B & C { a: Int b: Int c: Int } type Query { x: Int }")
    long_ones = [d for d in dists if d[0] in ("uniform-64", "uniform-500", "uniform-3000", "ascending-500", "pattern-3000",
                                              "small-alphabet-3000")]
    for label, b in dists[3:9] + long_ones + dists[-4:]:
        out.append((f"with-cyclic-{label}", "with", b, cyclic, True))
        out.append((f"with-cyclic3-{label}", "with", b, cyclic3, True))
        out.append((f"with-self-cycle-{label}", "with", b, selfc, True))
    return out


def covered_ids():
    src = strip_comments(COVERED_V.read_text())
    m = re.search(r"Definition site_claim.*?end\.", src, re.S)
    return set(re.findall(r"\|\s*(site_[A-Za-z0-9_]+)\s*=>", m.group(0) if m else src))


def run_processes(binary, family, lines, nproc):
    """the same case lines in nproc separate processes (one process per run: no sharding)"""
    return [run_family(binary, family, lines, shards=1) for _ in range(nproc)]


PROBE = re.compile(r"^probe=(\S+) ")


def compare_runs(ctx, family, lines, labels, runs, classify=None, describe=None):
    fam = ctx.cov["families"].setdefault(family, {"cases": 0, "agree": 0, "known": 0})
    probes = set()
    for k, line in enumerate(lines):
        outs = [r[k] for r in runs]
        fam["cases"] += 1
        ctx.note_case(family + " " + line, True)
        stripped = []
        for o in outs:
            m = PROBE.match(o)
            if m:
                probes.add(m.group(1))
            stripped.append(PROBE.sub("", o))
        bad = None
        if any("intra-process-difference" in o for o in outs):
            bad = "two runs inside one process differ (every new map has fresh keys)"
        elif len(set(stripped)) > 1:
            bad = "two processes disagree"
        elif not all(o.startswith("probe=") for o in outs):
            bad = "a run did not complete: " + outs[0][:100]
        if bad is None:
            fam["agree"] += 1
            continue
        cls = classify(line) if classify else None
        if cls and ctx.known_hit(cls):
            fam["known"] += 1
            continue
        ctx.oracle_failures += 1
        ctx.violation({"family": family, "case": line, "case_readable": (describe(line) if describe else labels.get(line, ""))[:6000],
                       "observations": sorted(set(stripped))[:4], "what": bad})
    fam["distinct_probe_hashes"] = len(probes)
    return probes


SELFTEST_EXPECTED = ["site_x_src_lib_rs_a_1", "site_x_src_lib_rs_b_1", "site_x_src_lib_rs_c_1", "site_x_src_lib_rs_f_1",
                     "site_x_src_lib_rs_g_1", "site_x_src_lib_rs_h_1", "site_x_src_lib_rs_j_1", "site_x_src_lib_rs_j_2",
                     "site_x_src_lib_rs_k_1"]


def scanner_selftest():
    """the scanner on a file with every enumeration form it claims to recognise (and look-ups, an IndexMap, shadowing
    and a #[cfg(test)] module that must not be reported)"""
    got = [s["id"] for s in c22_sites.scan(VERIF / "corpus" / "C22" / "scanner_selftest")]
    if got != SELFTEST_EXPECTED:
        raise MachineryError(f"the site scanner no longer recognises its own test file: {got}")


def run(ctx):
    scanner_selftest()
    quick = ctx.tier == "quick"
    repo = Path(os.environ.get("VERIF_REPO", str(REPO)))
    # (1) regenerate the list of enumeration sites from the source tree
    committed = SITES_V.read_text() if SITES_V.exists() else ""
    sites = c22_sites.scan(repo)
    generated = c22_sites.render_coq(sites)
    changed = generated != committed
    if changed:
        SITES_V.write_text(generated)
    try:
        return run_inner(ctx, quick, sites, changed)
    finally:
        if changed and repo != REPO:
            SITES_V.write_text(committed)       # a scratch tree must not leave the development modified


def run_inner(ctx, quick, sites, changed):
    known_ids = covered_ids()
    new_sites = [s for s in sites if s["id"] not in known_ids]
    gone = sorted(known_ids - {s["id"] for s in sites})
    props = check_props(ctx.pid)
    impl = build_impl()
    nproc = 4 if quick else 32
    repeat = 3 if quick else 5
    ctx.cov["sites"] = sites
    ctx.cov["sites_regenerated_differs_from_committed"] = changed
    ctx.cov["sites_without_lemma"] = [s["id"] for s in new_sites]
    ctx.cov["lemmas_without_site"] = gone
    # (2) the same inputs in N separate processes
    cases = corpus(ctx.rng, quick)
    lines, labels = [], {}
    for label, s, d in cases:
        line = f"{repeat} {hexs(s)} {hexs(d)}"
        lines.append(line)
        labels[line] = f"{label}\n--- schema\n{s}\n--- document\n{d}"
    runs = run_processes(impl, "c22_hashes", lines, nproc)
    probes = compare_runs(ctx, "c22_hashes", lines, labels, runs)
    ctx.cov["probe_hashes_sample"] = sorted(probes)[:8]
    ctx.cov["families"]["c22_hashes"]["valid_documents"] = sum(" intro=" in o for o in runs[0])
    ctx.cov["families"]["c22_hashes"]["with_document_diagnostics"] = sum(" ddiag=0:" not in o for o in runs[0])
    rlines = [f"{repeat} {hexs(s)}" for s in REVALIDATE]
    runs = run_processes(impl, "c22_revalidate", rlines, nproc)
    compare_runs(ctx, "c22_revalidate", rlines, {l: unhexs(l.split(" ")[1]) for l in rlines}, runs)
    ctx.cov["families"]["c22_revalidate"]["types_order_sample"] = runs[0][0][:400]
    sm = smith_cases(ctx.rng, quick)
    slines, smeta = [], {}
    for label, mode, b, seed, cyc in sm:
        line = f"{repeat} {mode} {b.hex() or '-'}" + (f" {hexs(seed)}" if seed is not None else "")
        slines.append(line)
        smeta[line] = (label, cyc, seed)
    runs = run_processes(impl, "c22_smith", slines, nproc)
    compare_runs(ctx, "c22_smith", slines, {}, runs,
                 describe=lambda l: f"{smeta[l][0]}: {len(l.split(' ')[2]) // 2} bytes" + (f", seed document: {smeta[l][2]}" if smeta[l][2] else ""))
    ctx.cov["families"]["c22_smith"]["documents_built"] = sum(" doc=" in o for o in runs[0])
    ctx.cov["families"]["c22_smith"]["builder_errors"] = sum(" err=" in o for o in runs[0])
    ctx.cov["families"]["c22_smith"]["seed_documents_with_implements_cycle"] = sum(1 for l in slines if smeta[l][1])
    # (3) a site without a lemma and no concrete difference found: name it
    if new_sites and not ctx.violations:
        ctx.violation({"what": "the source enumerates a hash-ordered container at a place Det/Covered.v has no lemma for "
                               "(Props/C22.v does not build); no cross-process difference was found on the corpus",
                       "sites": new_sites, "theorems_not_checked": props["broken"],
                       "log_tail": props["log"][-800:]}, no_input=True)
    ctx.cov["rule"] = (
        f"every case runs in {nproc} separate processes (each with its own hash keys: see distinct_probe_hashes) and "
        f"{repeat} times inside each; any difference between two runs is a violation with the input as replay. "
        "c22_hashes: serialized schema, `types` order, schema diagnostics (Display + JSON), serialized document, document "
        "diagnostics, introspection JSON of the document's queries and of the full introspection query, mixed-document "
        "diagnostics, implementers map content; corpus weighted to >= 3 unused variables, >= 3 unused fragments, > 20 "
        "arguments, deep merges, several undefined things on one line, a schema with many errors, a sample of the C21 "
        "structure corpus, seeded random documents. c22_revalidate: validate, into_inner, add fields of all five built-in "
        "scalar types, re-validate, `types` order and introspection. c22_smith: DocumentBuilder::new / with_document on byte "
        "strings of six distributions and seven lengths; with_document also on three seed documents whose interfaces "
        "implement each other (the fallback branch of topo_order_parents_first). Det/Sites.v is regenerated from the source tree first.")
    ctx.cov["exhaustive"] = False
    ctx.assumptions += [
        "the scanner's type resolution is syntactic (driver/props/c22_sites.py docstring); the model of the code around each "
        "site is written by hand (Det/HashOrder.v)",
        "documents come from text, so distinct variable definitions have distinct locations (C22_unused_vars_sorted's hypothesis); "
        "for hand-built documents without locations the order leaks (C22_unused_vars_without_locations_leak)",
        "the behaviour of ahash / SipHash keys across processes is exercised, not modelled",
    ]
    return ctx.finish(props)


def replay(ctx, path):
    r = json.load(open(path))
    if "family" not in r:
        print(json.dumps(r, indent=1)[:3000])
        return 0
    impl = build_impl()
    print("case :", r.get("case_readable", "")[:3000])
    for i in range(4):
        print(f"run {i}:", run_family(impl, r["family"], [r["case"]], shards=1)[0][:600])
    return 0
