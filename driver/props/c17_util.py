"""C17 tie helper: a two-stage correspondence where the implementation and the model read different lines
(implementation: hex sources; model: the schema and AST as dumped by the real builder / parser)."""
from common import *


def dump_all(impl, schemas, docs):
    """schemas: list of schema texts; docs: list of document texts.
    Returns ({schema text: dump or None}, {doc text: ast dump or None})."""
    us = sorted(set(schemas))
    so = run_family(impl, "schema_dump", ["b " + hexs(s) for s in us])
    sd = {s: (o[3:] if o.startswith("ok ") else None) for s, o in zip(us, so)}
    ud = sorted(set(docs))
    do = run_family(impl, "ast_dump", [hexs(d) for d in ud])
    dd = {d: (o[3:] if o.startswith("ok ") else None) for d, o in zip(ud, do)}
    return sd, dd


def first_word(s):
    return s.split(" ", 1)[0]


def correspond2(ctx, impl, model, family, cases, sd, dd, classify=None):
    """cases: list of dicts {schema, doc, label, ...}.  Compares only valid/invalid.
    Returns rows (case, impl line, model line); rows whose model line is outside-limits are not compared."""
    cases = [c for c in cases if sd.get(c["schema"]) is not None and dd.get(c["doc"]) is not None]
    cases.sort(key=lambda c: c["schema"])           # contiguous schemas: both sides cache the last one
    ilines = [hexs(c["schema"]) + " " + hexs(c["doc"]) for c in cases]
    mlines = [sd[c["schema"]] + " " + dd[c["doc"]] for c in cases]
    iout = run_family(impl, family, ilines, shards=8)
    mout = run_family(model, family, mlines, shards=8)
    fam = ctx.cov["families"].setdefault(family, {"cases": 0, "agree": 0, "known": 0, "outside_limits": 0})
    rows = []
    for c, io, mo in zip(cases, iout, mout):
        if mo.startswith("model-") or mo == "fuel" or mo.startswith("died") or mo == "timeout":
            raise MachineryError(f"model runner failed on {family}: {mo}\n{c['doc']}")
        if mo == "outside-limits":
            fam["outside_limits"] += 1
            continue
        ctx.note_case(family + " " + c["schema"] + "\n" + c["doc"], True)
        fam["cases"] += 1
        rows.append((c, io, mo))
        if first_word(io) == first_word(mo):
            fam["agree"] += 1
            continue
        cls = classify(c, io, mo) if classify else None
        if cls and ctx.known_hit(cls):
            fam["known"] += 1
            continue
        ctx.disagreements += 1
        if len(ctx.violations) < 8:
            ctx.violation({
                "family": family, "schema": c["schema"], "doc": c["doc"], "label": c.get("label"),
                "impl": io, "model": mo,
                "what": "apollo-compiler's verdict (impl: valid / invalid + diagnostic kinds) differs from the "
                        "specification's (model: valid / invalid + violated rules of section 5)",
            })
        else:
            ctx.violations.append("(not written)")
    return rows
