"""C17 tie helper: a two-stage correspondence where the implementation and the model read different lines
(implementation: hex sources; model: the schema and AST as dumped by the real builder / parser)."""
from common import *


def dump_all(impl, schemas, docs):
    """schemas: list of schema texts; docs: list of document texts.
    Returns ({schema text: dump or None}, {doc text: ast dump or None})."""
    us = sorted(set(schemas))
    so = run_family(impl, "schema_dump", ["b " + hexs(s) for s in us])
    sd = {s: (o[3:] if o.startswith("ok ") else None) for s, o in zip(us, so)}
    ud = sorted(set(docs))
    do = run_family(impl, "ast_dump", [hexs(d) for d in ud])
    dd = {d: (o[3:] if o.startswith("ok ") else None) for d, o in zip(ud, do)}
    return sd, dd


def first_word(s):
    return s.split(" ", 1)[0]


# No known-finding class is left for this property (the former ones are repaired in /repo, Exec/Known.v keeps them
# as xk_old_* definitions for the record): every disagreement is a violation.


def correspond2(ctx, impl, model, family, cases, sd, dd):
    """cases: list of dicts {schema, doc, label, ...}.  Compares only valid/invalid.
    Returns rows (case, impl line, model line); rows whose model line is outside-limits are not compared."""
    cases = [c for c in cases if sd.get(c["schema"]) is not None and dd.get(c["doc"]) is not None]
    cases.sort(key=lambda c: c["schema"])           # contiguous schemas: both sides cache the last one
    ilines = [hexs(c["schema"]) + " " + hexs(c["doc"]) for c in cases]
    mlines = [sd[c["schema"]] + " " + dd[c["doc"]] for c in cases]
    iout = run_family(impl, family, ilines, shards=16)
    mout = run_family(model, family, mlines, shards=16)
    fam = ctx.cov["families"].setdefault(family, {"cases": 0, "agree": 0, "known": 0, "outside_limits": 0})
    rows, dis = [], []
    for c, io, mo in zip(cases, iout, mout):
        if mo.startswith("model-") or mo == "fuel" or mo.startswith("died") or mo == "timeout":
            raise MachineryError(f"model runner failed on {family}: {mo}\n{c['doc']}")
        if mo == "outside-limits":
            fam["outside_limits"] += 1
            continue
        if " xing=" in mo:
            mo, tail = mo.split(" xing=", 1)
            xing, cyc = tail.split(" cycles=")
            fam.setdefault("literal_merging_vs_spec", {}).setdefault(xing, 0)
            fam["literal_merging_vs_spec"][xing] += 1
            fam.setdefault("literal_cycles_vs_spec", {}).setdefault(cyc, 0)
            fam["literal_cycles_vs_spec"][cyc] += 1
            if xing in ("differ", "fuel") or cyc == "differ":
                ctx.disagreements += 1
                ctx.violation({"family": family, "schema": c["schema"], "doc": c["doc"], "model": mo, "xing": xing,
                               "cycles": cyc,
                               "what": "the literal model of selection.rs / fragment.rs (MergeXing.v / FragCycles.v) "
                                       "differs from the specification's rule on this input (model against model)"})
        ctx.note_case(family + " " + c["schema"] + "\n" + c["doc"], True)
        fam["cases"] += 1
        rows.append((c, io, mo))
        if first_word(io) == first_word(mo):
            fam["agree"] += 1
        else:
            dis.append((c, io, mo))
    for c, io, mo in dis:
        c["known_classes"] = None
        ctx.disagreements += 1
        if len(ctx.violations) < 8:
            ctx.violation({
                "family": family, "schema": c["schema"], "doc": c["doc"], "label": c.get("label"),
                "impl": io, "model": mo,
                "what": "apollo-compiler's verdict (impl: valid / invalid + diagnostic kinds) differs from the "
                        "specification's (model: valid / invalid + violated rules of section 5)",
            })
        else:
            ctx.violations.append("(not written)")
    return rows
