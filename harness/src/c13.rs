//! C13 families: a schema built from several sources added one after another, from their
//! concatenation, and with one extension moved to the other side of its definition; an executable
//! document built from several sources vs their concatenation.
use crate::c12::{build_sources, builder_for, err_classes, observe_schema};
use crate::util::*;
use apollo_compiler::validation::DiagnosticList;
use apollo_compiler::ExecutableDocument;
use apollo_compiler::Schema;

pub fn families() -> Vec<(&'static str, crate::Family)> {
    vec![("c13_three", c13_three), ("c13_exec", c13_exec)]
}

fn sorted_messages(cfg: &str, srcs: &[String]) -> Vec<String> {
    let mut b = builder_for(cfg);
    for (i, s) in srcs.iter().enumerate() {
        b = b.parse(s.clone(), format!("s{i}.graphql"));
    }
    let mut v: Vec<String> = match b.build() {
        Ok(_) => vec![],
        Err(e) => e.errors.iter().map(|d| d.error.to_string()).collect(),
    };
    v.sort();
    v
}

/// input: `<cfg> <k> <hex chunk>*k <hex moved | -> <ast chunk>*k <ast moved | ->`
/// output: `A: errs=[..] <obs> C: (errs=[..] <obs> | -)` ; oracle: A = concatenation (also the sorted
/// messages) and A = C
fn c13_three(line: &str) -> String {
    let f: Vec<&str> = line.split(' ').collect();
    let cfg = f[0];
    let k: usize = f[1].parse().expect("k");
    let chunks: Vec<String> = f[2..2 + k].iter().map(|h| unhex(h)).collect();
    let moved = f[2 + k];
    let show = |srcs: &[String]| -> String {
        let (sch, errs) = build_sources(cfg, srcs);
        format!("errs=[{}] {}", errs.join(";"), observe_schema(&sch))
    };
    let a = show(&chunks);
    let concat = vec![chunks.join("\n")];
    let b = show(&concat);
    let mut why: Vec<&str> = Vec::new();
    if a != b {
        why.push("concat");
    }
    if sorted_messages(cfg, &chunks) != sorted_messages(cfg, &concat) {
        why.push("concat-messages");
    }
    let c = if moved == "-" {
        "-".to_string()
    } else {
        let msrc = vec![unhex(moved)];
        let c = show(&msrc);
        if a != c {
            why.push("moved");
        }
        if sorted_messages(cfg, &concat) != sorted_messages(cfg, &msrc) {
            why.push("moved-messages");
        }
        c
    };
    let oracle = if why.is_empty() { "ok".to_string() } else { format!("bad:{}", why.join("+")) };
    format!("A: {a} C: {c} oracle={oracle}")
}

fn exec_obs(doc: &ExecutableDocument, errors: &DiagnosticList) -> String {
    let named: Vec<&str> = doc.operations.named.keys().map(|k| k.as_str()).collect();
    let frags: Vec<&str> = doc.fragments.keys().map(|k| k.as_str()).collect();
    let mut msgs: Vec<String> = errors.iter().map(|d| d.error.to_string()).collect();
    msgs.sort();
    format!(
        "anon={} named={} frags={} errs=[{}] text={} msgs={}",
        doc.operations.anonymous.is_some() as u8,
        named.join(","),
        frags.join(","),
        err_classes(errors).join(";"),
        hex(&doc.to_string()),
        hex(&msgs.join("\n"))
    )
}

/// input: `<hex schema source> <k> <hex chunk>*k`; output: summary of the document built from the
/// chunks one after another; oracle: equal (key orders, serialized text, sorted messages) to the
/// document parsed from the concatenation
fn c13_exec(line: &str) -> String {
    let f: Vec<&str> = line.split(' ').collect();
    let schema = match Schema::parse_and_validate(unhex(f[0]), "schema.graphql") {
        Ok(s) => s,
        Err(_) => return "schema-invalid".to_string(),
    };
    let k: usize = f[1].parse().expect("k");
    let chunks: Vec<String> = f[2..2 + k].iter().map(|h| unhex(h)).collect();
    let mut errors = DiagnosticList::new(Default::default());
    let mut b = ExecutableDocument::builder(Some(&schema), &mut errors);
    for (i, c) in chunks.iter().enumerate() {
        b = b.parse(c.clone(), format!("q{i}.graphql"));
    }
    let doc = b.build();
    let a = exec_obs(&doc, &errors);
    let concat = chunks.join("\n");
    let bobs = match ExecutableDocument::parse(&schema, concat, "q.graphql") {
        Ok(d) => exec_obs(&d, &DiagnosticList::new(Default::default())),
        Err(e) => exec_obs(&e.partial, &e.errors),
    };
    let oracle = if a == bobs { "ok" } else { "bad:concat" };
    let short: String = a.split(" text=").next().unwrap().to_string();
    format!("{short} oracle={oracle}")
}
