//! C09: string values and descriptions survive serialization.
//! Family `ser_string`: `<cfg 0..5> <context> <depth 0..3> <hex string>` ->
//!   `lit <hex of the printed literal> oracle=...`
//! A template document is parsed, the placeholder string is replaced by the given string in the AST
//! (`make_mut`, `Node::new_str`), the AST is serialized with the configuration, the printed literal is the
//! first StringValue token of the output.  Oracle: the output re-parses without error and the string read
//! back from the same place is the given string.
use crate::c06::collect_strings;
use crate::util::*;
use apollo_compiler::ast;
use apollo_compiler::Node;

pub fn families() -> Vec<(&'static str, crate::Family)> {
    vec![("ser_string", ser_string)]
}

const PH: &str = "PLACEHOLDER";

fn set_value(v: &mut Node<ast::Value>, s: &str) {
    match v.make_mut() {
        ast::Value::String(x) => {
            if x == PH {
                *x = s.to_string()
            }
        }
        ast::Value::List(items) => {
            for i in items {
                set_value(i, s)
            }
        }
        ast::Value::Object(fields) => {
            for (_, i) in fields {
                set_value(i, s)
            }
        }
        _ => {}
    }
}

fn set_desc(d: &mut Option<Node<str>>, s: &str) {
    if d.as_deref() == Some(PH) {
        *d = Some(Node::new_str(s))
    }
}

fn set_directives(ds: &mut ast::DirectiveList, s: &str) {
    for d in ds.0.iter_mut() {
        for a in d.make_mut().arguments.iter_mut() {
            set_value(&mut a.make_mut().value, s)
        }
    }
}

fn set_input_values(ivs: &mut Vec<Node<ast::InputValueDefinition>>, s: &str) {
    for iv in ivs {
        let iv = iv.make_mut();
        set_desc(&mut iv.description, s);
        if let Some(v) = &mut iv.default_value {
            set_value(v, s)
        }
        set_directives(&mut iv.directives, s);
    }
}

fn set_fields(fs: &mut Vec<Node<ast::FieldDefinition>>, s: &str) {
    for f in fs {
        let f = f.make_mut();
        set_desc(&mut f.description, s);
        set_input_values(&mut f.arguments, s);
        set_directives(&mut f.directives, s);
    }
}

fn set_selections(sels: &mut Vec<ast::Selection>, s: &str) {
    for sel in sels {
        match sel {
            ast::Selection::Field(f) => {
                let f = f.make_mut();
                for a in f.arguments.iter_mut() {
                    set_value(&mut a.make_mut().value, s)
                }
                set_directives(&mut f.directives, s);
                set_selections(&mut f.selection_set, s);
            }
            ast::Selection::FragmentSpread(f) => set_directives(&mut f.make_mut().directives, s),
            ast::Selection::InlineFragment(f) => {
                let f = f.make_mut();
                set_directives(&mut f.directives, s);
                set_selections(&mut f.selection_set, s)
            }
        }
    }
}

/// Replace the placeholder everywhere in the document.
fn set_all(doc: &mut ast::Document, s: &str) {
    for def in doc.definitions.iter_mut() {
        match def {
            ast::Definition::OperationDefinition(op) => {
                let op = op.make_mut();
                for v in op.variables.iter_mut() {
                    let v = v.make_mut();
                    if let Some(d) = &mut v.default_value {
                        set_value(d, s)
                    }
                    set_directives(&mut v.directives, s);
                }
                set_directives(&mut op.directives, s);
                set_selections(&mut op.selection_set, s);
            }
            ast::Definition::DirectiveDefinition(d) => {
                let d = d.make_mut();
                set_desc(&mut d.description, s);
                set_input_values(&mut d.arguments, s);
            }
            ast::Definition::SchemaDefinition(d) => set_desc(&mut d.make_mut().description, s),
            ast::Definition::ScalarTypeDefinition(d) => set_desc(&mut d.make_mut().description, s),
            ast::Definition::ObjectTypeDefinition(d) => {
                let d = d.make_mut();
                set_desc(&mut d.description, s);
                set_fields(&mut d.fields, s);
            }
            ast::Definition::InterfaceTypeDefinition(d) => {
                let d = d.make_mut();
                set_desc(&mut d.description, s);
                set_fields(&mut d.fields, s);
            }
            ast::Definition::UnionTypeDefinition(d) => set_desc(&mut d.make_mut().description, s),
            ast::Definition::EnumTypeDefinition(d) => {
                let d = d.make_mut();
                set_desc(&mut d.description, s);
                for v in d.values.iter_mut() {
                    set_desc(&mut v.make_mut().description, s)
                }
            }
            ast::Definition::InputObjectTypeDefinition(d) => {
                let d = d.make_mut();
                set_desc(&mut d.description, s);
                set_input_values(&mut d.fields, s);
            }
            _ => {}
        }
    }
}

fn lists(depth: usize, inner: &str) -> String {
    format!("{}{}{}", "[".repeat(depth), inner, "]".repeat(depth))
}

/// Template source for a context; the placeholder sits where the string goes.
fn template(ctx: &str, depth: usize) -> String {
    let p = format!("\"{PH}\"");
    let ty = lists(depth, "String");
    let val = lists(depth, &p);
    match ctx {
        "argval" => {
            // the field with the argument sits `depth` selection sets deep
            let mut s = format!("f(x: {p})");
            for _ in 0..depth {
                s = format!("a {{ {s} }}");
            }
            format!("{{ {s} }}")
        }
        "dirval" => format!("{{ f @d(x: {val}) }}"),
        "vardef" => format!("query($v: {ty} = {val}) {{ f }}"),
        "argdef_default_single" => format!("type T {{ f(a: {ty} = {val}): Int }}"),
        "argdef_default" => format!("type T {{ f(a: {ty} = {val}, \"other\" b: Int): Int }}"),
        "input_default" => format!("input I {{ a: {ty} = {val} }}"),
        "desc_type" => format!("{p} type T {{ f: Int }}"),
        "desc_interface" => format!("{p} interface T {{ f: Int }}"),
        "desc_union" => format!("{p} union U = T"),
        "desc_scalar" => format!("{p} scalar S"),
        "desc_input" => format!("{p} input I {{ a: Int }}"),
        "desc_enum" => format!("{p} enum E {{ V }}"),
        "desc_schema" => format!("{p} schema {{ query: T }}"),
        "desc_directive" => format!("{p} directive @d on FIELD"),
        "desc_field" => format!("type T {{ {p} f: Int }}"),
        "desc_ifield" => format!("interface T {{ {p} f: Int }}"),
        "desc_enumval" => format!("enum E {{ {p} V }}"),
        "desc_inputfield" => format!("input I {{ {p} a: Int }}"),
        "desc_dirarg" => format!("directive @d({p} a: Int) on FIELD"),
        "desc_arg" => format!("type T {{ f({p} a: Int): Int }}"),
        _ => panic!("unknown context {ctx}"),
    }
}

fn with_config<T>(ser: ast::Serialize<'_, T>, cfg: usize) -> ast::Serialize<'_, T> {
    match cfg {
        0 => ser,
        1 => ser.no_indent(),
        2 => ser.indent_prefix("\t"),
        3 => ser.indent_prefix("    ").initial_indent_level(3),
        4 => ser.indent_prefix(""),
        5 => ser.indent_prefix(" ").initial_indent_level(1),
        _ => panic!("cfg"),
    }
}

fn first_string_token(out: &str) -> Option<String> {
    let (tokens, _errors) = apollo_parser::Lexer::new(out).lex();
    tokens
        .iter()
        .find(|t| t.kind() == apollo_parser::TokenKind::StringValue)
        .map(|t| t.data().to_string())
}

fn ser_string(line: &str) -> String {
    let parts: Vec<&str> = line.split(' ').collect();
    let cfg: usize = parts[0].parse().unwrap();
    let ctx = parts[1];
    let depth: usize = parts[2].parse().unwrap();
    let s = unhex(parts[3]);

    // the printed text and, for re-parsing, the text to parse
    let (printed, reparse_src) = if ctx == "value" {
        // a bare value (inside `depth` lists), serialized on its own
        let mut v = Node::new(ast::Value::String(s.clone()));
        for _ in 0..depth {
            v = Node::new(ast::Value::List(vec![v]));
        }
        let out = with_config(v.serialize(), cfg).to_string();
        let src = format!("{{ f(x: {out}\n) }}");
        (out, src)
    } else {
        let mut doc = ast::Document::parse(template(ctx, depth), "template.graphql").expect("template parses");
        set_all(&mut doc, &s);
        let out = with_config(doc.serialize(), cfg).to_string();
        (out.clone(), out)
    };
    let lit = first_string_token(&printed);
    let oracle = match ast::Document::parse(reparse_src, "printed.graphql") {
        Err(_) => "bad:printed-document-does-not-parse".to_string(),
        Ok(doc) => {
            let found = collect_strings(&doc);
            let expect = if ctx == "argdef_default" { 2 } else { 1 };
            if found.len() != expect {
                format!("bad:found-{}-strings", found.len())
            } else if found[0].1 != s {
                format!("bad:read-back-{}", hex(&found[0].1))
            } else {
                "ok".to_string()
            }
        }
    };
    match lit {
        Some(l) => format!("lit {} oracle={oracle}", hex(&l)),
        None => format!("lit none oracle={oracle}"),
    }
}
