//! C08 — AST serialization round-trips.
//! Family `c08_print`: input `<hex source> <ast text>`; the source is parsed with the real parser, the AST
//! is serialized under six configurations of the `Serialize` builder; the oracle re-parses each text and
//! compares the AST (PartialEq, which ignores locations, and the astdump text) and the second print.
//! output: `ok <hex cfg0> ... <hex cfg5> oracle=ok|bad:<cfg>:<why>` | `errors <n>` | `astmismatch`
//! Family `c08_print_partial`: the same texts for documents with syntax errors (the partial AST), no oracle.
use crate::astdump;
use crate::util::*;
use apollo_compiler::ast;

pub fn families() -> Vec<(&'static str, crate::Family)> {
    vec![("c08_print", c08_print), ("c08_print_partial", c08_print_partial)]
}

pub const NCFG: usize = 6;

fn ser(doc: &ast::Document, i: usize) -> String {
    match i {
        0 => doc.serialize().to_string(),
        1 => doc.serialize().no_indent().to_string(),
        2 => doc.serialize().indent_prefix("\t").to_string(),
        3 => doc
            .serialize()
            .indent_prefix("    ")
            .initial_indent_level(3)
            .to_string(),
        4 => doc.serialize().indent_prefix("").to_string(),
        5 => doc
            .serialize()
            .indent_prefix(" ")
            .initial_indent_level(1)
            .to_string(),
        _ => unreachable!(),
    }
}

fn ser_caught(doc: &ast::Document, i: usize) -> Option<String> {
    std::panic::catch_unwind(std::panic::AssertUnwindSafe(|| ser(doc, i))).ok()
}

fn oracle(doc: &ast::Document, dump: &str, i: usize, text: &str) -> Result<(), String> {
    let doc2 = match ast::Document::parse(text.to_string(), "serialized.graphql") {
        Ok(d) => d,
        Err(e) => return Err(format!("{i}:reparse-errors-{}", e.errors.len())),
    };
    if doc2 != *doc {
        return Err(format!("{i}:ast-differs"));
    }
    if astdump::document(&doc2) != dump {
        return Err(format!("{i}:astdump-differs"));
    }
    match ser_caught(&doc2, i) {
        None => Err(format!("{i}:second-print-panics")),
        Some(t2) if t2 != text => Err(format!("{i}:second-print-differs")),
        Some(_) => Ok(()),
    }
}

fn c08_print(line: &str) -> String {
    let (hsrc, given) = line.split_once(' ').expect("source and ast");
    let src = unhex(hsrc);
    let doc = match ast::Document::parse(src, "doc.graphql") {
        Ok(d) => d,
        Err(e) => return format!("errors {}", e.errors.len()),
    };
    let dump = astdump::document(&doc);
    if dump != given {
        return "astmismatch".to_string();
    }
    let mut out = String::from("ok");
    let mut verdict: Result<(), String> = Ok(());
    for i in 0..NCFG {
        match ser_caught(&doc, i) {
            None => {
                out.push_str(" panic");
                if verdict.is_ok() {
                    verdict = Err(format!("{i}:print-panics"));
                }
            }
            Some(t) => {
                out.push(' ');
                out.push_str(&hex(&t));
                if verdict.is_ok() {
                    verdict = oracle(&doc, &dump, i, &t);
                }
            }
        }
    }
    if verdict.is_ok() && doc.to_string() != ser(&doc, 0) {
        verdict = Err("0:to_string-differs-from-serialize".to_string());
    }
    match verdict {
        Ok(()) => format!("{out} oracle=ok"),
        Err(w) => format!("{out} oracle=bad:{w}"),
    }
}

fn c08_print_partial(line: &str) -> String {
    let (hsrc, given) = line.split_once(' ').expect("source and ast");
    let src = unhex(hsrc);
    let doc = ast::Document::parse(src, "doc.graphql").unwrap_or_else(|e| e.partial);
    if astdump::document(&doc) != given {
        return "astmismatch".to_string();
    }
    let mut out = String::from("ok");
    for i in 0..NCFG {
        match ser_caught(&doc, i) {
            None => out.push_str(" panic"),
            Some(t) => {
                out.push(' ');
                out.push_str(&hex(&t));
            }
        }
    }
    out
}
