//! C03: the lexer — the item stream of `apollo_parser::Lexer` (kinds, data, byte indices; no messages)
//! and the property's oracle on the implementation alone (items concatenate to the input, indices are
//! the running byte offsets, the stream ends with exactly one Eof).
use crate::util::*;
use apollo_parser::Lexer;

pub fn families() -> Vec<(&'static str, crate::Family)> {
    vec![("lex", lex), ("lex_limit", lex_limit)]
}

fn show(lexer: Lexer<'_>, src: &str, limited: bool) -> String {
    let mut out: Vec<String> = Vec::new();
    let mut cat = String::new();
    let mut oracle = "ok";
    let mut n_eof = 0;
    let mut hit_limit = false;
    for item in lexer {
        match item {
            Ok(t) => {
                if t.index() != cat.len() && oracle == "ok" {
                    oracle = "bad:token-index";
                }
                if n_eof > 0 || hit_limit {
                    oracle = "bad:item-after-end";
                }
                if format!("{:?}", t.kind()) == "Eof" {
                    n_eof += 1;
                    if !t.data().is_empty() {
                        oracle = "bad:eof-data";
                    }
                }
                cat.push_str(t.data());
                out.push(format!("T:{:?}:{}:{}", t.kind(), hex(t.data()), t.index()));
            }
            Err(e) if e.is_limit() => {
                if n_eof > 0 || hit_limit {
                    oracle = "bad:item-after-end";
                }
                hit_limit = true;
                out.push(format!("L:{}", e.index()));
            }
            Err(e) => {
                if e.index() != cat.len() && oracle == "ok" {
                    oracle = "bad:error-index";
                }
                if n_eof > 0 || hit_limit {
                    oracle = "bad:item-after-end";
                }
                if e.data().is_empty() && oracle == "ok" {
                    oracle = "bad:empty-error";
                }
                cat.push_str(e.data());
                out.push(format!("E:{}:{}", hex(e.data()), e.index()));
            }
        }
    }
    if oracle == "ok" {
        if !limited || !hit_limit {
            if cat != src {
                oracle = "bad:concat-differs";
            } else if n_eof != 1 {
                oracle = "bad:no-eof";
            }
        } else if !src.starts_with(&cat) {
            oracle = "bad:concat-not-prefix";
        }
    }
    format!("{} oracle={}", out.join(" "), oracle)
}

/// input: hex of the source text
fn lex(line: &str) -> String {
    let s = unhex(line);
    show(Lexer::new(&s), &s, false)
}

/// input: `<limit> <hex>`
fn lex_limit(line: &str) -> String {
    let (lim, h) = line.split_once(' ').expect("limit hex");
    let s = unhex(h);
    show(Lexer::new(&s).with_limit(lim.parse().expect("limit")), &s, true)
}
