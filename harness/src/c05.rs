//! C05: syntax acceptance and the top-level definitions as the real parser sees them.
//! family `c05_accept`: input = hex of the source text;
//! output = `rej` (the syntax tree has at least one error) | `acc <kind>:<hex name or ->;...`
//! where kind is the number of the `cst::Definition` variant and name comes from the typed accessors.
use crate::util::*;
use apollo_parser::cst;
use apollo_parser::Parser;

pub fn families() -> Vec<(&'static str, crate::Family)> {
    vec![("c05_accept", c05_accept)]
}

fn nm(n: Option<cst::Name>) -> String {
    match n {
        Some(n) => hex(n.text().as_str()),
        None => "-".to_string(),
    }
}

pub fn definitions(doc: &cst::Document) -> String {
    let mut out = Vec::new();
    for d in doc.definitions() {
        use cst::Definition as D;
        let (k, n) = match d {
            D::OperationDefinition(x) => (0, nm(x.name())),
            D::FragmentDefinition(x) => (1, nm(x.fragment_name().and_then(|f| f.name()))),
            D::DirectiveDefinition(x) => (2, nm(x.name())),
            D::SchemaDefinition(_) => (3, "-".to_string()),
            D::ScalarTypeDefinition(x) => (4, nm(x.name())),
            D::ObjectTypeDefinition(x) => (5, nm(x.name())),
            D::InterfaceTypeDefinition(x) => (6, nm(x.name())),
            D::UnionTypeDefinition(x) => (7, nm(x.name())),
            D::EnumTypeDefinition(x) => (8, nm(x.name())),
            D::InputObjectTypeDefinition(x) => (9, nm(x.name())),
            D::SchemaExtension(_) => (10, "-".to_string()),
            D::ScalarTypeExtension(x) => (11, nm(x.name())),
            D::ObjectTypeExtension(x) => (12, nm(x.name())),
            D::InterfaceTypeExtension(x) => (13, nm(x.name())),
            D::UnionTypeExtension(x) => (14, nm(x.name())),
            D::EnumTypeExtension(x) => (15, nm(x.name())),
            D::InputObjectTypeExtension(x) => (16, nm(x.name())),
        };
        out.push(format!("{k}:{n}"));
    }
    if out.is_empty() {
        "-".to_string()
    } else {
        out.join(";")
    }
}

fn c05_accept(line: &str) -> String {
    let src = unhex(line);
    let tree = Parser::new(&src).parse();
    if tree.errors().len() > 0 {
        return "rej".to_string();
    }
    format!("acc {}", definitions(&tree.document()))
}
