//! C16 families: validate; into_inner; (add a field of built-in scalar type B)*; validate; into_inner;
//! validate — the key list of `types` after every step and the verdicts; executable validation twice.
use crate::c12::build_sources;
use crate::util::*;
use apollo_compiler::ast::{FieldDefinition, Type};
use apollo_compiler::schema::{Component, ExtendedType};
use apollo_compiler::{ExecutableDocument, Name, Schema};

pub fn families() -> Vec<(&'static str, crate::Family)> {
    vec![("c16_hist", c16_hist), ("c16_exec", c16_exec)]
}

fn keys(s: &Schema) -> String {
    let v: Vec<&str> = s.types.keys().map(|k| k.as_str()).collect();
    v.join(",")
}

fn validate(s: Schema) -> (Schema, bool) {
    match s.validate() {
        Ok(v) => (v.into_inner(), true),
        Err(e) => (e.partial, false),
    }
}

/// input: `<hex source> <ast> <type name | -> <B1,B2,.. | ->`: the fields `zz0: B1`, `zz1: B2`, .. are
/// added to the object type of that name (if there is one).
/// output: `k0=<keys as built> k1=<keys after validate> k2=<after adding fields and validate>
/// k3=<after validate again> v=<verdicts>` ; oracle on k's and verdicts
fn c16_hist(line: &str) -> String {
    let f: Vec<&str> = line.split(' ').collect();
    let src = unhex(f[0]);
    let tname = f[2];
    let adds: Vec<&str> = split_nonempty(f[3], ',');
    let (s0, _errs) = build_sources("-", &[src]);
    let k0 = keys(&s0);
    let (s1, v1) = validate(s0);
    let k1 = keys(&s1);
    let (s1b, v1b) = validate(s1.clone());
    let k1b = keys(&s1b);
    let s1c = s1.clone();
    let mut s = s1;
    let mut added = 0;
    if let Some(ExtendedType::Object(obj)) = s.types.get_mut(tname) {
        let obj = obj.make_mut();
        for (i, b) in adds.iter().enumerate() {
            let fname = Name::new(&format!("zz{i}")).expect("name");
            let fd = FieldDefinition {
                description: None,
                name: fname.clone(),
                arguments: vec![],
                ty: Type::Named(Name::new(b).expect("name")),
                directives: Default::default(),
            };
            obj.fields.insert(fname, Component::new(fd));
            added += 1;
        }
    }
    let (s2, v2) = validate(s);
    let k2 = keys(&s2);
    let (s3, v3) = validate(s2.clone());
    let k3 = keys(&s3);
    let mut why: Vec<&str> = Vec::new();
    // re-validating an unchanged valid schema succeeds and leaves it identical
    if k1b != k1 || (v1 && !v1b) || s1b != s1c {
        why.push("revalidate-1");
    }
    if k3 != k2 || (v2 && !v3) || s3 != s2 {
        why.push("revalidate-2");
    }
    // exactly the referenced, previously missing built-in scalars are restored, appended to `types`
    let before: Vec<&str> = split_nonempty(&k1, ',');
    let after: Vec<&str> = split_nonempty(&k2, ',');
    if after.len() < before.len() || after[..before.len()] != before[..] {
        why.push("restore-prefix");
    } else {
        let mut expect: Vec<&str> = Vec::new();
        if added > 0 {
            for b in &adds {
                if !before.contains(b) && !expect.contains(b) {
                    expect.push(b);
                }
            }
        }
        if after[before.len()..] != expect[..] {
            why.push("restore-exact");
        }
    }
    if v1 && added > 0 && !v2 {
        why.push("valid-after-add");
    }
    let oracle = if why.is_empty() { "ok".to_string() } else { format!("bad:{}", why.join("+")) };
    format!(
        "k0={k0} k1={k1} k2={k2} k3={k3} v={}{}{}{} oracle={oracle}",
        v1 as u8, v1b as u8, v2 as u8, v3 as u8
    )
}

/// input: `<hex schema source> <hex document source>`; ExecutableDocument::validate twice
fn c16_exec(line: &str) -> String {
    let f: Vec<&str> = line.split(' ').collect();
    let schema = match Schema::parse_and_validate(unhex(f[0]), "schema.graphql") {
        Ok(s) => s,
        Err(_) => return "schema-invalid".to_string(),
    };
    let doc = match ExecutableDocument::parse(&schema, unhex(f[1]), "q.graphql") {
        Ok(d) => d,
        Err(_) => return "builderr".to_string(),
    };
    let t0 = doc.to_string();
    match doc.validate(&schema) {
        Err(_) => "invalid".to_string(),
        Ok(v) => {
            let d1 = v.into_inner();
            let t1 = d1.to_string();
            match d1.validate(&schema) {
                Ok(v2) => {
                    let t2 = v2.into_inner().to_string();
                    let ok = t0 == t1 && t1 == t2;
                    format!("valid oracle={}", if ok { "ok" } else { "bad:text-changed" })
                }
                Err(_) => "valid oracle=bad:second-validate-fails".to_string(),
            }
        }
    }
}
