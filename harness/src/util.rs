//! Wire-format helpers shared by all families.
pub fn unhex(h: &str) -> String {
    if h == "-" {
        return String::new();
    }
    let b: Vec<u8> = (0..h.len() / 2)
        .map(|i| u8::from_str_radix(&h[2 * i..2 * i + 2], 16).expect("hex"))
        .collect();
    String::from_utf8(b).expect("utf8")
}

pub fn hex(s: &str) -> String {
    if s.is_empty() {
        return "-".to_string();
    }
    s.bytes().map(|b| format!("{b:02x}")).collect()
}

pub fn split_nonempty(s: &str, c: char) -> Vec<&str> {
    if s.is_empty() || s == "-" {
        vec![]
    } else {
        s.split(c).collect()
    }
}
