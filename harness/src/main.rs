//! implrun <family> : one case per stdin line, one canonical observation per stdout line.
//! Every case runs under catch_unwind; a panic is the observation `panic`.
mod astdump;
mod schemadump;
mod util;
include!(concat!(env!("OUT_DIR"), "/mods.rs"));

use std::io::{BufRead, Write};

type Family = fn(&str) -> String;

fn families() -> Vec<(&'static str, Family)> {
    all_families()
}

fn main() {
    let fam = std::env::args().nth(1).expect("family");
    let Some((_, f)) = families().into_iter().find(|(n, _)| *n == fam) else {
        eprintln!("unknown family {fam}");
        std::process::exit(2);
    };
    std::panic::set_hook(Box::new(|_| {}));
    let stdin = std::io::stdin();
    let stdout = std::io::stdout();
    let mut out = std::io::BufWriter::new(stdout.lock());
    for line in stdin.lock().lines() {
        let line = line.expect("line");
        let r = std::panic::catch_unwind(|| f(&line));
        match r {
            Ok(s) => writeln!(out, "{s}").unwrap(),
            Err(e) => {
                let msg = e
                    .downcast_ref::<String>()
                    .cloned()
                    .or_else(|| e.downcast_ref::<&str>().map(|s| s.to_string()))
                    .unwrap_or_default();
                writeln!(out, "panic {}", util::hex(&msg)).unwrap()
            }
        }
    }
    out.flush().unwrap();
}
