//! C18: typed executable documents — the built document (every field's definition and every selection
//! set's type), the root_fields / all_fields iterators, and the property's oracle on the implementation.
//! Also the helpers shared with c19.rs / c20.rs (schema loading, case lines, document dump).
use crate::astdump::{self, list, opt, s};
use crate::util::*;
use apollo_compiler::ast;
use apollo_compiler::executable as ex;
use apollo_compiler::validation::DiagnosticList;
use apollo_compiler::validation::Valid;
use apollo_compiler::ExecutableDocument;
use apollo_compiler::Name;
use apollo_compiler::Node;
use apollo_compiler::Schema;
use std::cell::RefCell;
use std::rc::Rc;

pub fn families() -> Vec<(&'static str, crate::Family)> {
    vec![("xschema_dump", xschema_dump), ("xbuild", xbuild)]
}

thread_local! {
    static SCHEMA_CACHE: RefCell<Option<(String, Rc<(Valid<Schema>, bool)>)>> = RefCell::new(None);
}

/// The schema as executable documents see it: `Schema::parse_and_validate` (validation prunes unused
/// built-in scalars); when invalid, the partial schema (assumed valid, to reach the error paths).
/// Returns (schema, is_valid).  Cached by source text (consecutive cases share schemas).
pub(crate) fn load_schema(hex_src: &str) -> Rc<(Valid<Schema>, bool)> {
    SCHEMA_CACHE.with(|c| {
        if let Some((k, v)) = &*c.borrow() {
            if k == hex_src {
                return v.clone();
            }
        }
        let src = unhex(hex_src);
        let v = Rc::new(match Schema::parse_and_validate(src, "schema.graphql") {
            Ok(sch) => (sch, true),
            Err(e) => (Valid::assume_valid(e.partial), false),
        });
        *c.borrow_mut() = Some((hex_src.to_string(), v.clone()));
        v
    })
}

/// input: hex schema source; output: `valid <schema>` | `invalid <partial schema>` (built-ins included)
fn xschema_dump(line: &str) -> String {
    let sch = load_schema(line);
    format!(
        "{} {}",
        if sch.1 { "valid" } else { "invalid" },
        crate::schemadump::schema(&sch.0, true)
    )
}

/// case line: `<S|N> <hex schema> <hex doc> <schema term> <ast term>` (the last two are for the model)
pub(crate) struct Case {
    pub schema: Option<Rc<(Valid<Schema>, bool)>>,
    pub doc_src: String,
}

pub(crate) fn read_case(line: &str) -> Case {
    let parts: Vec<&str> = line.split(' ').collect();
    let schema = if parts[0] == "N" {
        None
    } else {
        Some(load_schema(parts[1]))
    };
    Case {
        schema,
        doc_src: unhex(parts[2]),
    }
}

/// Build (not validate) the typed document: (document, no build error).
pub(crate) fn build(case: &Case) -> (ExecutableDocument, bool) {
    match &case.schema {
        Some(sch) => match ExecutableDocument::parse(&sch.0, &case.doc_src, "doc.graphql") {
            Ok(d) => (d, true),
            Err(e) => (e.partial, false),
        },
        None => {
            let mut errors = DiagnosticList::new(Default::default());
            let d = ExecutableDocument::builder(None, &mut errors)
                .parse(&case.doc_src, "doc.graphql")
                .build();
            (d, errors.is_empty())
        }
    }
}

fn x_sels(set: &ex::SelectionSet) -> String {
    list(set.selections.iter(), |sel| match sel {
        ex::Selection::Field(f) => format!(
            "F({},{},{},{},{})",
            opt(f.alias.as_ref(), |a| s(a)),
            s(&f.name),
            astdump::fd(&f.definition),
            s(&f.selection_set.ty),
            x_sels(&f.selection_set)
        ),
        ex::Selection::FragmentSpread(sp) => format!("S({})", s(&sp.fragment_name)),
        ex::Selection::InlineFragment(i) => format!(
            "I({},{},{})",
            opt(i.type_condition.as_ref(), |a| s(a)),
            s(&i.selection_set.ty),
            x_sels(&i.selection_set)
        ),
    })
}

fn x_op(o: &ex::Operation) -> String {
    format!(
        "op({},{},{},{},{})",
        astdump::optype(o.operation_type),
        opt(o.name.as_ref(), |n| s(n)),
        s(&o.selection_set.ty),
        o.variables.len(),
        x_sels(&o.selection_set)
    )
}

pub(crate) fn x_doc(d: &ExecutableDocument) -> String {
    format!(
        "doc({},{},{})",
        opt(d.operations.anonymous.as_ref(), |o| x_op(o)),
        list(d.operations.named.values(), |o| x_op(o)),
        list(d.fragments.values(), |f| format!(
            "fr({},{},{})",
            s(&f.name),
            s(&f.selection_set.ty),
            x_sels(&f.selection_set)
        ))
    )
}

fn x_yield(f: &Node<ex::Field>) -> String {
    format!("P({},{},{})", s(f.response_key()), s(&f.name), s(&f.selection_set.ty))
}

/// The walk the iterators are documented to perform, written recursively and independently of them.
fn ref_walk<'a>(
    doc: &'a ExecutableDocument,
    sels: &'a [ex::Selection],
    all: bool,
    seen: &mut Vec<Name>,
    out: &mut Vec<&'a Node<ex::Field>>,
) {
    for sel in sels {
        match sel {
            ex::Selection::Field(f) => {
                out.push(f);
                if all {
                    ref_walk(doc, &f.selection_set.selections, all, seen, out)
                }
            }
            ex::Selection::InlineFragment(i) => ref_walk(doc, &i.selection_set.selections, all, seen, out),
            ex::Selection::FragmentSpread(sp) => {
                if let Some(def) = doc.fragments.get(&sp.fragment_name) {
                    if !seen.contains(&sp.fragment_name) {
                        seen.push(sp.fragment_name.clone());
                        ref_walk(doc, &def.selection_set.selections, all, seen, out)
                    }
                }
            }
        }
    }
}

/// C18's typing sentence on one selection set of type `parent`.
fn check_typing(schema: Option<&Schema>, parent: &Name, sels: &[ex::Selection]) -> Result<(), String> {
    for sel in sels {
        match sel {
            ex::Selection::Field(f) => {
                match schema {
                    Some(sch) => match sch.type_field(parent, &f.name) {
                        Ok(def) => {
                            if def.node != f.definition {
                                return Err(format!("definition-differs:{}.{}", parent, f.name));
                            }
                        }
                        Err(_) => return Err(format!("field-not-in-schema:{}.{}", parent, f.name)),
                    },
                    None => {
                        let d = &f.definition;
                        if d.name != f.name
                            || !d.arguments.is_empty()
                            || !matches!(&d.ty, ast::Type::Named(n) if n == "UNKNOWN")
                        {
                            return Err(format!("not-the-unknown-definition:{}", f.name));
                        }
                    }
                }
                if f.selection_set.ty != *f.definition.ty.inner_named_type() {
                    return Err(format!("field-selection-set-type:{}.{}", parent, f.name));
                }
                check_typing(schema, &f.selection_set.ty, &f.selection_set.selections)?;
            }
            ex::Selection::InlineFragment(i) => {
                let expect = i.type_condition.as_ref().unwrap_or(parent);
                if i.selection_set.ty != *expect {
                    return Err(format!("inline-fragment-type:{}", parent));
                }
                check_typing(schema, &i.selection_set.ty, &i.selection_set.selections)?;
            }
            ex::Selection::FragmentSpread(_) => {}
        }
    }
    Ok(())
}

fn oracle(schema: Option<&Schema>, d: &ExecutableDocument) -> Result<(), String> {
    for op in d.operations.iter() {
        let expect = match schema {
            Some(sch) => sch.root_operation(op.operation_type).cloned(),
            None => Some(op.operation_type.default_type_name()),
        };
        if expect.as_ref() != Some(&op.selection_set.ty) {
            return Err("operation-root-type".to_string());
        }
        check_typing(schema, &op.selection_set.ty, &op.selection_set.selections)?;
        for all in [false, true] {
            let got: Vec<&Node<ex::Field>> = if all {
                op.all_fields(d).collect()
            } else {
                op.root_fields(d).collect()
            };
            let mut want = Vec::new();
            ref_walk(d, &op.selection_set.selections, all, &mut Vec::new(), &mut want);
            if got.len() != want.len() || got.iter().zip(&want).any(|(a, b)| !a.ptr_eq(b)) {
                return Err(if all { "all_fields-differs" } else { "root_fields-differs" }.to_string());
            }
            if all {
                // exactly the reachable fields, each once
                let reach = reachable_fields(d, &op.selection_set.selections);
                let once = |x: &&Node<ex::Field>, l: &Vec<&Node<ex::Field>>| l.iter().filter(|y| y.ptr_eq(x)).count() == 1;
                if got.len() != reach.len() || reach.iter().any(|x| !once(x, &got)) {
                    return Err("all_fields-is-not-the-reachable-set".to_string());
                }
            }
        }
    }
    for f in d.fragments.values() {
        if let Some(sch) = schema {
            if !sch.types.contains_key(&f.selection_set.ty) {
                return Err(format!("fragment-type-undefined:{}", f.name));
            }
        }
        check_typing(schema, &f.selection_set.ty, &f.selection_set.selections)?;
    }
    Ok(())
}

/// All fields reachable from `sels` (sub-selections, inline fragments, defined fragment spreads), computed
/// as a plain graph closure: first the set of reachable fragment names, then every field inside the start
/// list and inside those fragments.  Independent of the order and of the seen-set logic of the iterators.
fn reachable_fields<'a>(doc: &'a ExecutableDocument, sels: &'a [ex::Selection]) -> Vec<&'a Node<ex::Field>> {
    fn spreads<'a>(sels: &'a [ex::Selection], out: &mut Vec<&'a Name>) {
        for sel in sels {
            match sel {
                ex::Selection::Field(f) => spreads(&f.selection_set.selections, out),
                ex::Selection::InlineFragment(i) => spreads(&i.selection_set.selections, out),
                ex::Selection::FragmentSpread(sp) => out.push(&sp.fragment_name),
            }
        }
    }
    fn fields<'a>(sels: &'a [ex::Selection], out: &mut Vec<&'a Node<ex::Field>>) {
        for sel in sels {
            match sel {
                ex::Selection::Field(f) => {
                    out.push(f);
                    fields(&f.selection_set.selections, out)
                }
                ex::Selection::InlineFragment(i) => fields(&i.selection_set.selections, out),
                ex::Selection::FragmentSpread(_) => {}
            }
        }
    }
    let mut frags: Vec<&Name> = Vec::new();
    let mut todo: Vec<&Name> = Vec::new();
    spreads(sels, &mut todo);
    while let Some(n) = todo.pop() {
        if frags.contains(&n) {
            continue;
        }
        if let Some(def) = doc.fragments.get(n) {
            frags.push(n);
            spreads(&def.selection_set.selections, &mut todo);
        }
    }
    let mut out = Vec::new();
    fields(sels, &mut out);
    for n in frags {
        fields(&doc.fragments[n].selection_set.selections, &mut out);
    }
    out
}

fn vars_in_value<'a>(v: &'a ast::Value, out: &mut Vec<&'a Name>) {
    match v {
        ast::Value::Variable(n) => out.push(n),
        ast::Value::List(l) => l.iter().for_each(|x| vars_in_value(x, out)),
        ast::Value::Object(l) => l.iter().for_each(|(_, x)| vars_in_value(x, out)),
        _ => {}
    }
}

fn vars_in_dirs<'a>(d: &'a ast::DirectiveList, out: &mut Vec<&'a Name>) {
    for dir in d.iter() {
        for a in &dir.arguments {
            vars_in_value(&a.value, out)
        }
    }
}

/// every selection of the tree (not following spreads)
fn all_selections<'a>(sels: &'a [ex::Selection], out: &mut Vec<&'a ex::Selection>) {
    for sel in sels {
        out.push(sel);
        match sel {
            ex::Selection::Field(f) => all_selections(&f.selection_set.selections, out),
            ex::Selection::InlineFragment(i) => all_selections(&i.selection_set.selections, out),
            ex::Selection::FragmentSpread(_) => {}
        }
    }
}

/// C18's second sentence, on a document the validator accepted.
fn valid_guarantees(schema: &Schema, d: &ExecutableDocument) -> Result<(), String> {
    // every spread names an existing fragment; composite fields have sub-selections, leaves have none
    let mut roots: Vec<&ex::SelectionSet> = d.operations.iter().map(|o| &o.selection_set).collect();
    roots.extend(d.fragments.values().map(|f| &f.selection_set));
    for set in roots {
        let mut sels = Vec::new();
        all_selections(&set.selections, &mut sels);
        for sel in sels {
            match sel {
                ex::Selection::FragmentSpread(sp) => {
                    if !d.fragments.contains_key(&sp.fragment_name) {
                        return Err(format!("valid-but-undefined-fragment:{}", sp.fragment_name));
                    }
                }
                ex::Selection::Field(f) => {
                    let composite = match schema.types.get(f.definition.ty.inner_named_type()) {
                        Some(t) => t.is_object() || t.is_interface() || t.is_union(),
                        None => return Err(format!("valid-but-field-type-undefined:{}", f.name)),
                    };
                    if composite == f.selection_set.selections.is_empty() {
                        return Err(format!("valid-but-leaf-rule:{}", f.name));
                    }
                }
                ex::Selection::InlineFragment(_) => {}
            }
        }
    }
    // spreads are acyclic: repeatedly remove fragments that spread only removed fragments
    let mut remaining: Vec<&Name> = d.fragments.keys().collect();
    loop {
        let before = remaining.len();
        let snapshot = remaining.clone();
        remaining.retain(|n| {
            let mut sels = Vec::new();
            all_selections(&d.fragments[*n].selection_set.selections, &mut sels);
            sels.iter().any(|s| matches!(s, ex::Selection::FragmentSpread(sp) if snapshot.contains(&&sp.fragment_name)))
        });
        if remaining.len() == before {
            break;
        }
    }
    if !remaining.is_empty() {
        return Err(format!("valid-but-cyclic-fragments:{}", remaining[0]));
    }
    // every variable used by an operation (directly or through reachable fragments) is defined by it
    for op in d.operations.iter() {
        let mut used = Vec::new();
        vars_in_dirs(&op.directives, &mut used);
        let mut sets: Vec<&ex::SelectionSet> = vec![&op.selection_set];
        let mut seen: Vec<&Name> = Vec::new();
        while let Some(set) = sets.pop() {
            let mut sels = Vec::new();
            all_selections(&set.selections, &mut sels);
            for sel in sels {
                vars_in_dirs(sel.directives(), &mut used);
                match sel {
                    ex::Selection::Field(f) => f.arguments.iter().for_each(|a| vars_in_value(&a.value, &mut used)),
                    ex::Selection::FragmentSpread(sp) => {
                        if !seen.contains(&&sp.fragment_name) {
                            seen.push(&sp.fragment_name);
                            if let Some(def) = d.fragments.get(&sp.fragment_name) {
                                vars_in_dirs(&def.directives, &mut used);
                                sets.push(&def.selection_set);
                            }
                        }
                    }
                    ex::Selection::InlineFragment(_) => {}
                }
            }
        }
        for v in used {
            if !op.variables.iter().any(|d| d.name == *v) {
                return Err(format!("valid-but-undefined-variable:{v}"));
            }
        }
    }
    Ok(())
}

/// output: `build=<ok|err> <typed document> [it(<root_fields>,<all_fields>) per operation]`
fn xbuild(line: &str) -> String {
    let case = read_case(line);
    let (d, ok) = build(&case);
    let its = list(d.operations.iter(), |op| {
        format!(
            "it({},{})",
            list(op.root_fields(&d), |f| x_yield(f)),
            list(op.all_fields(&d), |f| x_yield(f))
        )
    });
    let mut o = match oracle(case.schema.as_ref().map(|s| &*s.0 as &Schema), &d) {
        Ok(()) => "ok".to_string(),
        Err(why) => format!("bad:{why}"),
    };
    // what validation guarantees (second sentence of the property), on documents the validator accepts
    if let Some(sch) = &case.schema {
        if sch.1 && ok && o == "ok" {
            if let Ok(valid) = ExecutableDocument::parse_and_validate(&sch.0, &case.doc_src, "doc.graphql") {
                if let Err(why) = valid_guarantees(&sch.0, &valid) {
                    o = format!("bad:{why}");
                }
            }
        }
    }
    format!(
        "build={} {} {} oracle={}",
        if ok { "ok" } else { "err" },
        x_doc(&d),
        its,
        o
    )
}
