//! C18: typed executable documents — the built document (every field's definition and every selection
//! set's type), the root_fields / all_fields iterators, and the property's oracle on the implementation.
//! Also the helpers shared with c19.rs / c20.rs (schema loading, case lines, document dump).
use crate::astdump::{self, list, opt, s};
use crate::util::*;
use apollo_compiler::ast;
use apollo_compiler::executable as ex;
use apollo_compiler::validation::DiagnosticList;
use apollo_compiler::validation::Valid;
use apollo_compiler::ExecutableDocument;
use apollo_compiler::Name;
use apollo_compiler::Node;
use apollo_compiler::Schema;
use std::cell::RefCell;
use std::rc::Rc;

pub fn families() -> Vec<(&'static str, crate::Family)> {
    vec![("xschema_dump", xschema_dump), ("xbuild", xbuild)]
}

thread_local! {
    static SCHEMA_CACHE: RefCell<Option<(String, Rc<(Valid<Schema>, bool)>)>> = RefCell::new(None);
}

/// The schema as executable documents see it: `Schema::parse_and_validate` (validation prunes unused
/// built-in scalars); when invalid, the partial schema (assumed valid, to reach the error paths).
/// Returns (schema, is_valid).  Cached by source text (consecutive cases share schemas).
pub(crate) fn load_schema(hex_src: &str) -> Rc<(Valid<Schema>, bool)> {
    SCHEMA_CACHE.with(|c| {
        if let Some((k, v)) = &*c.borrow() {
            if k == hex_src {
                return v.clone();
            }
        }
        let src = unhex(hex_src);
        let v = Rc::new(match Schema::parse_and_validate(src, "schema.graphql") {
            Ok(sch) => (sch, true),
            Err(e) => (Valid::assume_valid(e.partial), false),
        });
        *c.borrow_mut() = Some((hex_src.to_string(), v.clone()));
        v
    })
}

/// input: hex schema source; output: `valid <schema>` | `invalid <partial schema>` (built-ins included)
fn xschema_dump(line: &str) -> String {
    let sch = load_schema(line);
    format!(
        "{} {}",
        if sch.1 { "valid" } else { "invalid" },
        crate::schemadump::schema(&sch.0, true)
    )
}

/// case line: `<S|N> <hex schema> <hex doc> <schema term> <ast term>` (the last two are for the model)
pub(crate) struct Case {
    pub schema: Option<Rc<(Valid<Schema>, bool)>>,
    pub doc_src: String,
}

pub(crate) fn read_case(line: &str) -> Case {
    let parts: Vec<&str> = line.split(' ').collect();
    let schema = if parts[0] == "N" {
        None
    } else {
        Some(load_schema(parts[1]))
    };
    Case {
        schema,
        doc_src: unhex(parts[2]),
    }
}

/// Build (not validate) the typed document: (document, no build error).
pub(crate) fn build(case: &Case) -> (ExecutableDocument, bool) {
    match &case.schema {
        Some(sch) => match ExecutableDocument::parse(&sch.0, &case.doc_src, "doc.graphql") {
            Ok(d) => (d, true),
            Err(e) => (e.partial, false),
        },
        None => {
            let mut errors = DiagnosticList::new(Default::default());
            let d = ExecutableDocument::builder(None, &mut errors)
                .parse(&case.doc_src, "doc.graphql")
                .build();
            (d, errors.is_empty())
        }
    }
}

fn x_sels(set: &ex::SelectionSet) -> String {
    list(set.selections.iter(), |sel| match sel {
        ex::Selection::Field(f) => format!(
            "F({},{},{},{},{})",
            opt(f.alias.as_ref(), |a| s(a)),
            s(&f.name),
            astdump::fd(&f.definition),
            s(&f.selection_set.ty),
            x_sels(&f.selection_set)
        ),
        ex::Selection::FragmentSpread(sp) => format!("S({})", s(&sp.fragment_name)),
        ex::Selection::InlineFragment(i) => format!(
            "I({},{},{})",
            opt(i.type_condition.as_ref(), |a| s(a)),
            s(&i.selection_set.ty),
            x_sels(&i.selection_set)
        ),
    })
}

fn x_op(o: &ex::Operation) -> String {
    format!(
        "op({},{},{},{},{})",
        astdump::optype(o.operation_type),
        opt(o.name.as_ref(), |n| s(n)),
        s(&o.selection_set.ty),
        o.variables.len(),
        x_sels(&o.selection_set)
    )
}

pub(crate) fn x_doc(d: &ExecutableDocument) -> String {
    format!(
        "doc({},{},{})",
        opt(d.operations.anonymous.as_ref(), |o| x_op(o)),
        list(d.operations.named.values(), |o| x_op(o)),
        list(d.fragments.values(), |f| format!(
            "fr({},{},{})",
            s(&f.name),
            s(&f.selection_set.ty),
            x_sels(&f.selection_set)
        ))
    )
}

fn x_yield(f: &Node<ex::Field>) -> String {
    format!("P({},{},{})", s(f.response_key()), s(&f.name), s(&f.selection_set.ty))
}

/// The walk the iterators are documented to perform, written recursively and independently of them.
fn ref_walk<'a>(
    doc: &'a ExecutableDocument,
    sels: &'a [ex::Selection],
    all: bool,
    seen: &mut Vec<Name>,
    out: &mut Vec<&'a Node<ex::Field>>,
) {
    for sel in sels {
        match sel {
            ex::Selection::Field(f) => {
                out.push(f);
                if all {
                    ref_walk(doc, &f.selection_set.selections, all, seen, out)
                }
            }
            ex::Selection::InlineFragment(i) => ref_walk(doc, &i.selection_set.selections, all, seen, out),
            ex::Selection::FragmentSpread(sp) => {
                if let Some(def) = doc.fragments.get(&sp.fragment_name) {
                    if !seen.contains(&sp.fragment_name) {
                        seen.push(sp.fragment_name.clone());
                        ref_walk(doc, &def.selection_set.selections, all, seen, out)
                    }
                }
            }
        }
    }
}

/// C18's typing sentence on one selection set of type `parent`.
fn check_typing(schema: Option<&Schema>, parent: &Name, sels: &[ex::Selection]) -> Result<(), String> {
    for sel in sels {
        match sel {
            ex::Selection::Field(f) => {
                match schema {
                    Some(sch) => match sch.type_field(parent, &f.name) {
                        Ok(def) => {
                            if def.node != f.definition {
                                return Err(format!("definition-differs:{}.{}", parent, f.name));
                            }
                        }
                        Err(_) => return Err(format!("field-not-in-schema:{}.{}", parent, f.name)),
                    },
                    None => {
                        let d = &f.definition;
                        if d.name != f.name
                            || !d.arguments.is_empty()
                            || !matches!(&d.ty, ast::Type::Named(n) if n == "UNKNOWN")
                        {
                            return Err(format!("not-the-unknown-definition:{}", f.name));
                        }
                    }
                }
                if f.selection_set.ty != *f.definition.ty.inner_named_type() {
                    return Err(format!("field-selection-set-type:{}.{}", parent, f.name));
                }
                check_typing(schema, &f.selection_set.ty, &f.selection_set.selections)?;
            }
            ex::Selection::InlineFragment(i) => {
                let expect = i.type_condition.as_ref().unwrap_or(parent);
                if i.selection_set.ty != *expect {
                    return Err(format!("inline-fragment-type:{}", parent));
                }
                check_typing(schema, &i.selection_set.ty, &i.selection_set.selections)?;
            }
            ex::Selection::FragmentSpread(_) => {}
        }
    }
    Ok(())
}

fn oracle(schema: Option<&Schema>, d: &ExecutableDocument) -> Result<(), String> {
    for op in d.operations.iter() {
        let expect = match schema {
            Some(sch) => sch.root_operation(op.operation_type).cloned(),
            None => Some(op.operation_type.default_type_name()),
        };
        if expect.as_ref() != Some(&op.selection_set.ty) {
            return Err("operation-root-type".to_string());
        }
        check_typing(schema, &op.selection_set.ty, &op.selection_set.selections)?;
        for all in [false, true] {
            let got: Vec<&Node<ex::Field>> = if all {
                op.all_fields(d).collect()
            } else {
                op.root_fields(d).collect()
            };
            let mut want = Vec::new();
            ref_walk(d, &op.selection_set.selections, all, &mut Vec::new(), &mut want);
            if got.len() != want.len() || got.iter().zip(&want).any(|(a, b)| !a.ptr_eq(b)) {
                return Err(if all { "all_fields-differs" } else { "root_fields-differs" }.to_string());
            }
        }
    }
    for f in d.fragments.values() {
        if let Some(sch) = schema {
            if !sch.types.contains_key(&f.selection_set.ty) {
                return Err(format!("fragment-type-undefined:{}", f.name));
            }
        }
        check_typing(schema, &f.selection_set.ty, &f.selection_set.selections)?;
    }
    Ok(())
}

/// output: `build=<ok|err> <typed document> [it(<root_fields>,<all_fields>) per operation]`
fn xbuild(line: &str) -> String {
    let case = read_case(line);
    let (d, ok) = build(&case);
    let its = list(d.operations.iter(), |op| {
        format!(
            "it({},{})",
            list(op.root_fields(&d), |f| x_yield(f)),
            list(op.all_fields(&d), |f| x_yield(f))
        )
    });
    let o = match oracle(case.schema.as_ref().map(|s| &*s.0 as &Schema), &d) {
        Ok(()) => "ok".to_string(),
        Err(why) => format!("bad:{why}"),
    };
    format!(
        "build={} {} {} oracle={}",
        if ok { "ok" } else { "err" },
        x_doc(&d),
        its,
        o
    )
}
