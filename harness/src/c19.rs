//! C19: executable documents, field sets and mixed documents round-trip through serialization.
//! Observation for the model: the AST of the serialized (default configuration) typed document, i.e.
//! `ExecutableDocument::to_ast` as far as the public API shows it.  Oracle: for valid inputs, under the six
//! serialization configurations, re-parsing and re-validating the text gives an equal document.
use crate::astdump;
use crate::c18::{build, load_schema, read_case};
use crate::util::*;
use apollo_compiler::ast;
use apollo_compiler::executable::FieldSet;
use apollo_compiler::parser::Parser;
use apollo_compiler::ExecutableDocument;
use apollo_compiler::Name;

pub fn families() -> Vec<(&'static str, crate::Family)> {
    vec![("xroundtrip", xroundtrip), ("xfieldset", xfieldset), ("xmixed", xmixed)]
}

const NCFG: usize = 6;

/// the six configurations of the property: default; no_indent; "\t"; 4 spaces at level 3; ""; " " at level 1
macro_rules! ser {
    ($x:expr, $cfg:expr) => {
        match $cfg {
            0 => $x.serialize().to_string(),
            1 => $x.serialize().no_indent().to_string(),
            2 => $x.serialize().indent_prefix("\t").to_string(),
            3 => $x.serialize().indent_prefix("    ").initial_indent_level(3).to_string(),
            4 => $x.serialize().indent_prefix("").to_string(),
            _ => $x.serialize().indent_prefix(" ").initial_indent_level(1).to_string(),
        }
    };
}

fn reparsed_ast(text: &str) -> String {
    match ast::Document::parse(text, "re.graphql") {
        Ok(a) => astdump::document(&a),
        Err(_) => "unparseable".to_string(),
    }
}

/// case line as in c18.rs; output: `build=<ok|err> valid=<t|f|-> ast=<AST of the printed document>`
fn xroundtrip(line: &str) -> String {
    let case = read_case(line);
    let (d, ok) = build(&case);
    let ast_obs = reparsed_ast(&d.to_string());
    let mut valid = "-";
    let mut oracle = "ok".to_string();
    if let Some(sch) = &case.schema {
        if sch.1 {
            match ExecutableDocument::parse_and_validate(&sch.0, &case.doc_src, "doc.graphql") {
                Err(_) => valid = "f",
                Ok(doc) => {
                    valid = "t";
                    for cfg in 0..NCFG {
                        let text = ser!(doc, cfg);
                        match ExecutableDocument::parse_and_validate(&sch.0, &text, "re.graphql") {
                            Ok(re) => {
                                if *re != *doc {
                                    oracle = format!("bad:cfg{cfg}-reparsed-document-differs");
                                    break;
                                }
                            }
                            Err(_) => {
                                oracle = format!("bad:cfg{cfg}-reparsed-document-invalid");
                                break;
                            }
                        }
                    }
                }
            }
        }
    }
    format!(
        "build={} valid={} ast={} oracle={}",
        if ok { "ok" } else { "err" },
        valid,
        ast_obs,
        oracle
    )
}

/// input: `<hex schema> <hex type name> <hex field set text> <schema term> <selections term>`
/// output: `build=<ok|err> valid=<t|f|-> sels=<selections of the printed field set>`
fn xfieldset(line: &str) -> String {
    let parts: Vec<&str> = line.split(' ').collect();
    let sch = load_schema(parts[0]);
    let ty = Name::new(&unhex(parts[1])).expect("type name");
    let src = unhex(parts[2]);
    let (fs, ok) = match FieldSet::parse(&sch.0, ty.clone(), &src, "fs.graphql") {
        Ok(fs) => (fs, true),
        Err(e) => (e.partial, false),
    };
    let printed = fs.to_string();
    let sels_obs = match ast::Document::parse(format!("{{ {printed} }}"), "re.graphql") {
        Ok(a) => match a.definitions.first() {
            Some(ast::Definition::OperationDefinition(op)) => astdump::sels(&op.selection_set),
            _ => "unparseable".to_string(),
        },
        Err(_) => "unparseable".to_string(),
    };
    let mut valid = "-";
    let mut oracle = "ok".to_string();
    if sch.1 {
        match FieldSet::parse_and_validate(&sch.0, ty.clone(), &src, "fs.graphql") {
            Err(_) => valid = "f",
            Ok(v) => {
                valid = "t";
                for cfg in 0..NCFG {
                    let text = ser!(v, cfg);
                    match FieldSet::parse_and_validate(&sch.0, ty.clone(), &text, "re.graphql") {
                        Ok(re) => {
                            if re.selection_set != v.selection_set {
                                oracle = format!("bad:cfg{cfg}-reparsed-field-set-differs");
                                break;
                            }
                        }
                        Err(_) => {
                            oracle = format!("bad:cfg{cfg}-reparsed-field-set-invalid");
                            break;
                        }
                    }
                }
            }
        }
    }
    format!(
        "build={} valid={} sels={} oracle={}",
        if ok { "ok" } else { "err" },
        valid,
        sels_obs,
        oracle
    )
}

/// input: `<hex mixed text> <schema term> <ast term>`; output: `valid=<t|f> ast=<AST of the printed executable document|->`
fn xmixed(line: &str) -> String {
    let parts: Vec<&str> = line.split(' ').collect();
    let src = unhex(parts[0]);
    match Parser::new().parse_mixed_validate(&src, "mixed.graphql") {
        Err(_) => "valid=f ast=- oracle=ok".to_string(),
        Ok((schema, doc)) => {
            let ast_obs = reparsed_ast(&doc.to_string());
            let mut oracle = "ok".to_string();
            for cfg in 0..NCFG {
                let text = format!("{}\n{}", ser!(schema, cfg), ser!(doc, cfg));
                match Parser::new().parse_mixed_validate(&text, "re.graphql") {
                    Ok((_s2, d2)) => {
                        if *d2 != *doc {
                            oracle = format!("bad:cfg{cfg}-reparsed-mixed-document-differs");
                            break;
                        }
                    }
                    Err(_) => {
                        oracle = format!("bad:cfg{cfg}-reparsed-mixed-invalid");
                        break;
                    }
                }
            }
            format!("valid=t ast={ast_obs} oracle={oracle}")
        }
    }
}
