//! C20: validating without a schema is a relaxation — the pair of verdicts (with the schema, standalone)
//! and the property's oracle: valid with the schema implies valid standalone.
use crate::c18::read_case;
use apollo_compiler::ast;
use apollo_compiler::ExecutableDocument;

pub fn families() -> Vec<(&'static str, crate::Family)> {
    vec![("xstandalone", xstandalone)]
}

/// case line as in c18.rs; output: `with=<t|f|-> alone=<t|f>` (with=- : no schema, or the schema is invalid)
fn xstandalone(line: &str) -> String {
    let case = read_case(line);
    let with = match &case.schema {
        Some(sch) if sch.1 => Some(
            ExecutableDocument::parse_and_validate(&sch.0, &case.doc_src, "doc.graphql").is_ok(),
        ),
        _ => None,
    };
    let doc = match ast::Document::parse(&case.doc_src, "doc.graphql") {
        Ok(d) => d,
        Err(_) => return "syntax".to_string(),
    };
    let alone = doc.validate_standalone_executable().is_ok();
    let oracle = if with == Some(true) && !alone {
        "bad:valid-with-schema-but-standalone-invalid"
    } else {
        "ok"
    };
    let b = |x: bool| if x { "t" } else { "f" };
    format!(
        "with={} alone={} oracle={}",
        with.map(b).unwrap_or("-"),
        b(alone),
        oracle
    )
}
