//! Compact text form of a built `Schema` (read by coq/ocaml/lib_schema.ml into Schema/Model.v's types).
//! Extension ids are numbered by first appearance in this traversal (identity, not location).
use crate::astdump::*;
use apollo_compiler::schema::*;
use apollo_compiler::Schema;

pub struct Dumper {
    exts: Vec<ExtensionId>,
}

impl Dumper {
    pub fn new() -> Self {
        Dumper { exts: Vec::new() }
    }

    fn origin(&mut self, o: &ComponentOrigin) -> String {
        match o {
            ComponentOrigin::Definition => "Od".to_string(),
            ComponentOrigin::Extension(id) => {
                let i = match self.exts.iter().position(|e| e == id) {
                    Some(i) => i,
                    None => {
                        self.exts.push(id.clone());
                        self.exts.len() - 1
                    }
                };
                format!("Ox(n{i})")
            }
        }
    }

    fn cname(&mut self, c: &ComponentName) -> String {
        format!("C({},{})", self.origin(&c.origin), s(&c.name))
    }

    fn sdirs(&mut self, d: &DirectiveList) -> String {
        let v: Vec<String> = d
            .iter()
            .map(|c| format!("C({},{})", self.origin(&c.origin), dir(c)))
            .collect();
        format!("[{}]", v.join(";"))
    }

    fn cnames<'a>(&mut self, l: impl Iterator<Item = &'a ComponentName>) -> String {
        let v: Vec<String> = l.map(|c| self.cname(c)).collect();
        format!("[{}]", v.join(";"))
    }

    fn b(x: bool) -> &'static str {
        if x {
            "t"
        } else {
            "f"
        }
    }

    pub fn ext_type(&mut self, t: &ExtendedType) -> String {
        let bi = Self::b(t.is_built_in());
        match t {
            ExtendedType::Scalar(x) => format!(
                "ESa({},{},{},{bi})",
                desc(&x.description),
                s(&x.name),
                self.sdirs(&x.directives)
            ),
            ExtendedType::Object(x) => {
                let fields: Vec<String> = x
                    .fields
                    .values()
                    .map(|c| format!("C({},{})", self.origin(&c.origin), fd(c)))
                    .collect();
                format!(
                    "EOb({},{},{},{},[{}],{bi})",
                    desc(&x.description),
                    s(&x.name),
                    self.cnames(x.implements_interfaces.iter()),
                    self.sdirs(&x.directives),
                    fields.join(";")
                )
            }
            ExtendedType::Interface(x) => {
                let fields: Vec<String> = x
                    .fields
                    .values()
                    .map(|c| format!("C({},{})", self.origin(&c.origin), fd(c)))
                    .collect();
                format!(
                    "EIf({},{},{},{},[{}],{bi})",
                    desc(&x.description),
                    s(&x.name),
                    self.cnames(x.implements_interfaces.iter()),
                    self.sdirs(&x.directives),
                    fields.join(";")
                )
            }
            ExtendedType::Union(x) => format!(
                "EUn({},{},{},{},{bi})",
                desc(&x.description),
                s(&x.name),
                self.sdirs(&x.directives),
                self.cnames(x.members.iter())
            ),
            ExtendedType::Enum(x) => {
                let values: Vec<String> = x
                    .values
                    .values()
                    .map(|c| format!("C({},{})", self.origin(&c.origin), ev(c)))
                    .collect();
                format!(
                    "EEn({},{},{},[{}],{bi})",
                    desc(&x.description),
                    s(&x.name),
                    self.sdirs(&x.directives),
                    values.join(";")
                )
            }
            ExtendedType::InputObject(x) => {
                let fields: Vec<String> = x
                    .fields
                    .values()
                    .map(|c| format!("C({},{})", self.origin(&c.origin), iv(c)))
                    .collect();
                format!(
                    "EIn({},{},{},[{}],{bi})",
                    desc(&x.description),
                    s(&x.name),
                    self.sdirs(&x.directives),
                    fields.join(";")
                )
            }
        }
    }

    /// `include_builtin`: also dump built-in directive definitions and the built-in / introspection types
    pub fn schema(&mut self, sch: &Schema, include_builtin: bool) -> String {
        let sd = &sch.schema_definition;
        let root = |d: &mut Dumper, r: &Option<ComponentName>| match r {
            None => "N".to_string(),
            Some(c) => format!("S({})", d.cname(c)),
        };
        let sdef = format!(
            "SD({},{},{},{},{})",
            desc(&sd.description),
            self.sdirs(&sd.directives),
            root(self, &sd.query),
            root(self, &sd.mutation),
            root(self, &sd.subscription)
        );
        let dds: Vec<String> = sch
            .directive_definitions
            .values()
            .filter(|d| include_builtin || !d.is_built_in())
            .map(|x| {
                format!(
                    "DD({},{},{},{},{},{})",
                    desc(&x.description),
                    s(&x.name),
                    ivs(&x.arguments),
                    Self::b(x.repeatable),
                    list(x.locations.iter(), |l| l.name().to_string()),
                    Self::b(x.is_built_in())
                )
            })
            .collect();
        let tys: Vec<String> = sch
            .types
            .values()
            .filter(|t| include_builtin || !t.is_built_in())
            .map(|t| self.ext_type(t))
            .collect();
        format!("Sch({sdef},[{}],[{}])", dds.join(";"), tys.join(";"))
    }
}

pub fn schema(sch: &Schema, include_builtin: bool) -> String {
    Dumper::new().schema(sch, include_builtin)
}
