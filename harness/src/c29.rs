//! C29: type compatibility — is_assignable_to directly, the variable-usage rule and the
//! implementation-field-type rule through the verdict of minimal documents / schemas.
use crate::c10::type_of_desc;
use crate::util::*;
use apollo_compiler::validation::DiagnosticList;
use apollo_compiler::ExecutableDocument;
use apollo_compiler::Schema;

pub fn families() -> Vec<(&'static str, crate::Family)> {
    vec![
        ("c29_assignable", c29_assignable),
        ("c29_usage", c29_usage),
        ("c29_impl", c29_impl),
        ("c29_subtype", c29_subtype),
    ]
}

fn b01(b: bool) -> &'static str {
    if b {
        "1"
    } else {
        "0"
    }
}

/// input: `<self> <target>` (type descriptors); output: `0|1`
fn c29_assignable(line: &str) -> String {
    let (a, b) = line.split_once(' ').expect("case");
    b01(type_of_desc(a).is_assignable_to(&type_of_desc(b))).to_string()
}

/// names of the diagnostics, sorted; `?` for one without a name
fn names(errors: &DiagnosticList) -> Vec<String> {
    let mut v: Vec<String> = errors
        .iter()
        .map(|d| d.error.unstable_error_name().unwrap_or("?").to_string())
        .collect();
    v.sort();
    v
}

/// a literal that is a valid non-null value of the type (named types are custom scalars)
fn value_for(desc: &str) -> &'static str {
    if desc.starts_with(['l', 'L']) {
        "[]"
    } else {
        "1"
    }
}

fn default_text(kind: &str, ty_desc: &str) -> String {
    match kind {
        "-" => String::new(),
        "null" => " = null".to_string(),
        "val" => format!(" = {}", value_for(ty_desc)),
        _ => panic!("default kind"),
    }
}

/// input: `<site> <vartype> <vardefault> <loctype> <locdefault>`, site = field | directive,
/// defaults = - | null | val.
/// output: `allowed=0|1 others=<other diagnostic names or ->`: allowed = no DisallowedVariableUsage.
fn c29_usage(line: &str) -> String {
    let p: Vec<&str> = line.split(' ').collect();
    let (site, vt, vd, lt, ld) = (p[0], p[1], p[2], p[3], p[4]);
    let vty = type_of_desc(vt);
    let lty = type_of_desc(lt);
    let arg = format!("(a: {}{})", lty, default_text(ld, lt));
    let (sdl, sel) = match site {
        "field" => (
            format!("scalar A\nscalar B\ntype Query {{ f{arg}: Int g: Int }}\n"),
            "f(a: $v)",
        ),
        "directive" => (
            format!("scalar A\nscalar B\ndirective @d{arg} on FIELD\ntype Query {{ g: Int }}\n"),
            "g @d(a: $v)",
        ),
        _ => panic!("site"),
    };
    let doc = format!("query($v: {}{}) {{ {sel} }}\n", vty, default_text(vd, vt));
    let schema = match Schema::parse_and_validate(&sdl, "s.graphql") {
        Ok(s) => s,
        Err(e) => return format!("schema-invalid others={}", names(&e.errors).join(",")),
    };
    let ns = match ExecutableDocument::parse_and_validate(&schema, &doc, "d.graphql") {
        Ok(_) => vec![],
        Err(e) => names(&e.errors),
    };
    let disallowed = ns.iter().filter(|n| *n == "DisallowedVariableUsage").count();
    let others: Vec<&str> = ns
        .iter()
        .filter(|n| *n != "DisallowedVariableUsage")
        .map(|s| s.as_str())
        .collect();
    format!(
        "allowed={} others={}",
        b01(disallowed == 0),
        if others.is_empty() { "-".to_string() } else { others.join(",") }
    )
}

/// SDL of a schema description: `Name:o:I,J` | `Name:i:I` | `Name:u:A,B` | `Name:s:` separated by ';'
fn sdl_of(desc: &str) -> String {
    let mut out = String::from("type Query { q: Int }\n");
    for e in split_nonempty(desc, ';') {
        let p: Vec<&str> = e.split(':').collect();
        let (n, k, l) = (p[0], p[1], split_nonempty(p[2], ','));
        let imp = if l.is_empty() { String::new() } else { format!(" implements {}", l.join(" & ")) };
        match k {
            "o" => out.push_str(&format!("type {n}{imp} {{ x: Int }}\n")),
            "i" => out.push_str(&format!("interface {n}{imp} {{ x: Int }}\n")),
            "u" => out.push_str(&format!("union {n} = {}\n", l.join(" | "))),
            "s" => out.push_str(&format!("scalar {n}\n")),
            _ => panic!("kind"),
        }
    }
    out
}

/// input: `<schema> <site> <ifacetype> <impltype>`, site = object | interface.
/// output: `valid=0|1 others=<...>`: valid = no InvalidImplementationFieldType.
fn c29_impl(line: &str) -> String {
    let p: Vec<&str> = line.split(' ').collect();
    let (sch, site, it, mt) = (p[0], p[1], p[2], p[3]);
    let mut sdl = sdl_of(sch);
    sdl.push_str(&format!("interface Jj {{ f: {} }}\n", type_of_desc(it)));
    match site {
        "object" => sdl.push_str(&format!("type Tt implements Jj {{ f: {} }}\n", type_of_desc(mt))),
        "interface" => sdl.push_str(&format!("interface Tt implements Jj {{ f: {} }}\n", type_of_desc(mt))),
        _ => panic!("site"),
    }
    let ns = match Schema::parse_and_validate(&sdl, "s.graphql") {
        Ok(_) => vec![],
        Err(e) => names(&e.errors),
    };
    let bad = ns.iter().filter(|n| *n == "InvalidImplementationFieldType").count();
    let others: Vec<&str> = ns
        .iter()
        .filter(|n| *n != "InvalidImplementationFieldType")
        .map(|s| s.as_str())
        .collect();
    format!(
        "valid={} others={}",
        b01(bad == 0),
        if others.is_empty() { "-".to_string() } else { others.join(",") }
    )
}

/// input: `<schema> <abstract> <maybe_subtype>`; output `0|1` (Schema::is_subtype; the schema may be invalid)
fn c29_subtype(line: &str) -> String {
    let p: Vec<&str> = line.split(' ').collect();
    let schema = Schema::parse(sdl_of(p[0]), "s.graphql").unwrap_or_else(|e| e.partial);
    b01(schema.is_subtype(p[1], p[2])).to_string()
}
