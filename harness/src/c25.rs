//! C25: introspection::check_max_depth on a document and on the same document with every named
//! fragment expanded inline (the property's oracle: the two verdicts must agree).
use crate::util::*;
use apollo_compiler::introspection;
use apollo_compiler::validation::Valid;
use apollo_compiler::ExecutableDocument;
use apollo_compiler::Schema;
use std::sync::OnceLock;

pub fn families() -> Vec<(&'static str, crate::Family)> {
    vec![("c25_depth", c25_depth)]
}

fn schema() -> &'static Valid<Schema> {
    static S: OnceLock<Valid<Schema>> = OnceLock::new();
    S.get_or_init(|| Schema::parse_and_validate("type Query { x: Int }", "schema.graphql").expect("schema"))
}

/// `v`: the document must pass validation; `u`: parsed only and wrapped with Valid::assume_valid
/// (used for spreads of undefined fragments, which validation rejects but the code handles).
fn verdict(mode: &str, text: &str) -> &'static str {
    let doc = if mode == "v" {
        match ExecutableDocument::parse_and_validate(schema(), text, "doc.graphql") {
            Ok(d) => d,
            Err(_) => return "invalid",
        }
    } else {
        match ExecutableDocument::parse(schema(), text, "doc.graphql") {
            Ok(d) => Valid::assume_valid(d),
            Err(_) => return "invalid",
        }
    };
    let Ok(op) = doc.operations.get(None) else {
        return "invalid";
    };
    match introspection::check_max_depth(&doc, op) {
        Ok(()) => "ok",
        Err(_) => "err",
    }
}

/// input: `<mode> <hex doc> <hex expanded doc> <frags> <op>`; output: `ok|err|invalid oracle=...`
fn c25_depth(line: &str) -> String {
    let parts: Vec<&str> = line.split(' ').collect();
    let (mode, doc, expanded) = (parts[0], unhex(parts[1]), unhex(parts[2]));
    let v = verdict(mode, &doc);
    let e = verdict(mode, &expanded);
    if v == "invalid" || e == "invalid" {
        return format!("invalid:{v}:{e}");
    }
    if v == e {
        format!("{v} oracle=ok")
    } else {
        format!("{v} oracle=bad:expanded-form-gives-{e}")
    }
}
