//! C23: schema coordinates — parse / print / lookup observations and the property oracle.
use crate::util::*;
use apollo_compiler::coordinate::*;
use apollo_compiler::schema::ExtendedType;
use apollo_compiler::Name;
use apollo_compiler::Schema;
use std::str::FromStr;

pub fn families() -> Vec<(&'static str, crate::Family)> {
    vec![("coord_parse", coord_parse), ("coord_lookup", coord_lookup)]
}

fn show(c: &SchemaCoordinate) -> String {
    match c {
        SchemaCoordinate::Type(c) => format!("T {}", hex(c.ty.as_str())),
        SchemaCoordinate::TypeAttribute(c) => {
            format!("A {} {}", hex(c.ty.as_str()), hex(c.attribute.as_str()))
        }
        SchemaCoordinate::FieldArgument(c) => format!(
            "F {} {} {}",
            hex(c.ty.as_str()),
            hex(c.field.as_str()),
            hex(c.argument.as_str())
        ),
        SchemaCoordinate::Directive(c) => format!("D {}", hex(c.directive.as_str())),
        SchemaCoordinate::DirectiveArgument(c) => {
            format!("G {} {}", hex(c.directive.as_str()), hex(c.argument.as_str()))
        }
    }
}

/// input: hex of the candidate string. output: `ok <coord> print=<hex>` | `err`,
/// then ` oracle=...` (the property evaluated on the implementation alone).
fn coord_parse(line: &str) -> String {
    let s = unhex(line);
    match SchemaCoordinate::from_str(&s) {
        Err(_) => "err".to_string(),
        Ok(c) => {
            let printed = c.to_string();
            // parse(print(c)) == c
            let back = SchemaCoordinate::from_str(&printed);
            let mut oracle = "ok";
            if printed != s {
                oracle = "bad:print-differs";
            } else if back.as_ref().ok() != Some(&c) {
                oracle = "bad:reparse-differs";
            }
            // the specific FromStr impls agree with the general one
            let specific_ok = match &c {
                SchemaCoordinate::Type(x) => TypeCoordinate::from_str(&s).ok().as_ref() == Some(x),
                SchemaCoordinate::TypeAttribute(x) => {
                    TypeAttributeCoordinate::from_str(&s).ok().as_ref() == Some(x)
                }
                SchemaCoordinate::FieldArgument(x) => {
                    FieldArgumentCoordinate::from_str(&s).ok().as_ref() == Some(x)
                }
                SchemaCoordinate::Directive(x) => {
                    DirectiveCoordinate::from_str(&s).ok().as_ref() == Some(x)
                }
                SchemaCoordinate::DirectiveArgument(x) => {
                    DirectiveArgumentCoordinate::from_str(&s).ok().as_ref() == Some(x)
                }
            };
            if oracle == "ok" && !specific_ok {
                oracle = "bad:specific-fromstr-differs";
            }
            format!("ok {} print={} oracle={}", show(&c), hex(&printed), oracle)
        }
    }
}

fn name(s: &str) -> Name {
    Name::new(s).expect("name")
}

fn coord_of_desc(d: &str) -> SchemaCoordinate {
    let (tag, rest) = d.split_at(1);
    let names: Vec<&str> = rest[1..].split(',').collect();
    match (tag, names.as_slice()) {
        ("T", [t]) => TypeCoordinate { ty: name(t) }.into(),
        ("A", [t, a]) => TypeAttributeCoordinate {
            ty: name(t),
            attribute: name(a),
        }
        .into(),
        ("F", [t, f, a]) => FieldArgumentCoordinate {
            ty: name(t),
            field: name(f),
            argument: name(a),
        }
        .into(),
        ("D", [d]) => DirectiveCoordinate { directive: name(d) }.into(),
        ("G", [d, a]) => DirectiveArgumentCoordinate {
            directive: name(d),
            argument: name(a),
        }
        .into(),
        _ => panic!("bad coord desc"),
    }
}

/// Render the abstract schema description as SDL (the harness, not the code under test, does this).
fn sdl_of(types: &str, dirs: &str) -> String {
    let mut out = String::new();
    for d in split_nonempty(dirs, ';') {
        let i = d.find('(').unwrap();
        let (n, args) = (&d[..i], &d[i + 1..d.len() - 1]);
        out.push_str(&format!("directive @{n}"));
        let args = split_nonempty(args, ',');
        if !args.is_empty() {
            out.push('(');
            for a in args {
                out.push_str(&format!("{a}: Int "));
            }
            out.push(')');
        }
        out.push_str(" on FIELD\n");
    }
    for t in split_nonempty(types, ';') {
        let parts: Vec<&str> = t.split(':').collect();
        let (n, k, attrs) = (parts[0], parts[1], parts[2]);
        let attrs = split_nonempty(attrs, '/');
        match k {
            "s" => out.push_str(&format!("scalar {n}\n")),
            "u" => out.push_str(&format!("union {n} = UMember\n")),
            "e" => {
                out.push_str(&format!("enum {n} {{"));
                for a in &attrs {
                    out.push_str(&format!(" {}", &a[..a.find('(').unwrap()]));
                }
                out.push_str(" }\n");
            }
            "n" => {
                out.push_str(&format!("input {n} {{"));
                for a in &attrs {
                    out.push_str(&format!(" {}: Int", &a[..a.find('(').unwrap()]));
                }
                out.push_str(" }\n");
            }
            "o" | "i" => {
                out.push_str(&format!(
                    "{} {n} {{",
                    if k == "o" { "type" } else { "interface" }
                ));
                for a in &attrs {
                    let i = a.find('(').unwrap();
                    let (f, args) = (&a[..i], &a[i + 1..a.len() - 1]);
                    out.push_str(&format!(" {f}"));
                    let args = split_nonempty(args, ',');
                    if !args.is_empty() {
                        out.push('(');
                        for x in args {
                            out.push_str(&format!("{x}: Int "));
                        }
                        out.push(')');
                    }
                    out.push_str(": Int");
                }
                out.push_str(" }\n");
            }
            _ => panic!("kind"),
        }
    }
    out.push_str("type UMember { x: Int }\n");
    out
}

/// Independent of `lookup`: scan the schema's public fields for an element with these names.
fn exists_by_scan(schema: &Schema, c: &SchemaCoordinate) -> Option<String> {
    let fields_of = |t: &ExtendedType, attr: &str| -> Option<(String, Vec<String>)> {
        match t {
            ExtendedType::Object(o) => o.fields.iter().find(|(k, _)| k.as_str() == attr).map(|(_, f)| {
                ("field".to_string(), f.arguments.iter().map(|a| a.name.to_string()).collect())
            }),
            ExtendedType::Interface(o) => o.fields.iter().find(|(k, _)| k.as_str() == attr).map(|(_, f)| {
                ("field".to_string(), f.arguments.iter().map(|a| a.name.to_string()).collect())
            }),
            ExtendedType::InputObject(o) => o
                .fields
                .iter()
                .find(|(k, _)| k.as_str() == attr)
                .map(|_| ("inputfield".to_string(), vec![])),
            ExtendedType::Enum(o) => o
                .values
                .iter()
                .find(|(k, _)| k.as_str() == attr)
                .map(|_| ("enumvalue".to_string(), vec![])),
            _ => None,
        }
    };
    let ty = |n: &str| schema.types.iter().find(|(k, _)| k.as_str() == n).map(|(_, t)| t);
    let dir = |n: &str| {
        schema
            .directive_definitions
            .iter()
            .find(|(k, _)| k.as_str() == n)
            .map(|(_, d)| d)
    };
    match c {
        SchemaCoordinate::Type(c) => ty(c.ty.as_str()).map(|_| "type".to_string()),
        SchemaCoordinate::TypeAttribute(c) => {
            ty(c.ty.as_str()).and_then(|t| fields_of(t, c.attribute.as_str())).map(|(k, _)| k)
        }
        SchemaCoordinate::FieldArgument(c) => ty(c.ty.as_str())
            .and_then(|t| fields_of(t, c.field.as_str()))
            .and_then(|(k, args)| {
                (k == "field" && args.iter().any(|a| a == c.argument.as_str()))
                    .then(|| "argument".to_string())
            }),
        SchemaCoordinate::Directive(c) => dir(c.directive.as_str()).map(|_| "directive".to_string()),
        SchemaCoordinate::DirectiveArgument(c) => dir(c.directive.as_str()).and_then(|d| {
            d.arguments
                .iter()
                .any(|a| a.name == c.argument.as_str())
                .then(|| "argument".to_string())
        }),
    }
}

/// input: `<types> <dirs> <coord>`; output: `ok <kind> <name>` | `err`, then ` oracle=...`
fn coord_lookup(line: &str) -> String {
    let parts: Vec<&str> = line.split(' ').collect();
    let sdl = sdl_of(parts[0], parts[1]);
    let schema = Schema::parse(&sdl, "s.graphql").unwrap_or_else(|e| e.partial);
    let c = coord_of_desc(parts[2]);
    let scan = exists_by_scan(&schema, &c);
    let (obs, found_kind, found_name) = match c.lookup(&schema) {
        Err(_) => ("err".to_string(), None, String::new()),
        Ok(SchemaCoordinateLookup::Type(t)) => {
            let k = match t {
                ExtendedType::Scalar(_) => "s",
                ExtendedType::Object(_) => "o",
                ExtendedType::Interface(_) => "i",
                ExtendedType::Union(_) => "u",
                ExtendedType::Enum(_) => "e",
                ExtendedType::InputObject(_) => "n",
            };
            (format!("ok type:{k} {}", t.name()), Some("type"), t.name().to_string())
        }
        Ok(SchemaCoordinateLookup::Directive(d)) => {
            (format!("ok directive {}", d.name), Some("directive"), d.name.to_string())
        }
        Ok(SchemaCoordinateLookup::Field(f)) => {
            (format!("ok field {}", f.name), Some("field"), f.name.to_string())
        }
        Ok(SchemaCoordinateLookup::InputField(f)) => {
            (format!("ok inputfield {}", f.name), Some("inputfield"), f.name.to_string())
        }
        Ok(SchemaCoordinateLookup::EnumValue(f)) => {
            (format!("ok enumvalue {}", f.value), Some("enumvalue"), f.value.to_string())
        }
        Ok(SchemaCoordinateLookup::Argument(a)) => {
            (format!("ok argument {}", a.name), Some("argument"), a.name.to_string())
        }
        Ok(_) => ("ok other".to_string(), Some("other"), String::new()),
    };
    // the element found carries exactly the coordinate's last name; found iff a scan finds one
    let last = match &c {
        SchemaCoordinate::Type(c) => c.ty.to_string(),
        SchemaCoordinate::TypeAttribute(c) => c.attribute.to_string(),
        SchemaCoordinate::FieldArgument(c) => c.argument.to_string(),
        SchemaCoordinate::Directive(c) => c.directive.to_string(),
        SchemaCoordinate::DirectiveArgument(c) => c.argument.to_string(),
    };
    let oracle = match (found_kind, scan.as_deref()) {
        (None, None) => "ok",
        (Some(k), Some(s)) if k == s && found_name == last => "ok",
        (Some(_), Some(_)) => "bad:wrong-element",
        (Some(_), None) => "bad:found-but-absent",
        (None, Some(_)) => "bad:error-but-present",
    };
    format!("{obs} oracle={oracle}")
}
