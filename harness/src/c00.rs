//! Shared AST transport: `ast_dump` parses a source text with the real parser and prints the AST in the
//! compact form read by the model side (coq/ocaml/lib_ast.ml). Used by two-stage ties:
//! the driver feeds this output to model families that work on ASTs.
use crate::astdump;
use crate::util::*;
use apollo_compiler::ast;

pub fn families() -> Vec<(&'static str, crate::Family)> {
    vec![
        ("ast_dump", ast_dump),
        ("ast_echo", ast_echo_line),
        ("schema_dump", schema_dump),
        ("schema_echo", schema_echo_line),
    ]
}

/// input: hex source; output: `ok <ast>` | `errors <n> <ast of the partial document>`
fn ast_dump(line: &str) -> String {
    let src = unhex(line);
    match ast::Document::parse(src, "doc.graphql") {
        Ok(doc) => format!("ok {}", astdump::document(&doc)),
        Err(e) => format!("errors {} {}", e.errors.len(), astdump::document(&e.partial)),
    }
}

/// input: hex source; output: the same as the model's `ast_echo` applied to the dumped AST
fn ast_echo_line(line: &str) -> String {
    let src = unhex(line);
    let doc = ast::Document::parse(src, "doc.graphql").unwrap_or_else(|e| e.partial);
    format!("{} size={}", astdump::document(&doc), doc.definitions.len())
}

/// input: `<b|u> <hex source>` (b: include built-in definitions); output: `ok <schema>` | `errors <n> <partial schema>`
fn schema_dump(line: &str) -> String {
    let (flag, h) = line.split_once(' ').expect("flag and source");
    let src = unhex(h);
    match apollo_compiler::Schema::parse(src, "schema.graphql") {
        Ok(sch) => format!("ok {}", crate::schemadump::schema(&sch, flag == "b")),
        Err(e) => format!(
            "errors {} {}",
            e.errors.len(),
            crate::schemadump::schema(&e.partial, flag == "b")
        ),
    }
}

fn schema_echo_line(line: &str) -> String {
    let (flag, h) = line.split_once(' ').expect("flag and source");
    let sch = apollo_compiler::Schema::parse(unhex(h), "schema.graphql").unwrap_or_else(|e| e.partial);
    let n = sch.types.values().filter(|t| flag == "b" || !t.is_built_in()).count();
    format!("{} types={}", crate::schemadump::schema(&sch, flag == "b"), n)
}
