//! Shared AST transport: `ast_dump` parses a source text with the real parser and prints the AST in the
//! compact form read by the model side (coq/ocaml/lib_ast.ml). Used by two-stage ties:
//! the driver feeds this output to model families that work on ASTs.
use crate::astdump;
use crate::util::*;
use apollo_compiler::ast;

pub fn families() -> Vec<(&'static str, crate::Family)> {
    vec![("ast_dump", ast_dump), ("ast_echo", ast_echo_line)]
}

/// input: hex source; output: `ok <ast>` | `errors <n> <ast of the partial document>`
fn ast_dump(line: &str) -> String {
    let src = unhex(line);
    match ast::Document::parse(src, "doc.graphql") {
        Ok(doc) => format!("ok {}", astdump::document(&doc)),
        Err(e) => format!("errors {} {}", e.errors.len(), astdump::document(&e.partial)),
    }
}

/// input: hex source; output: the same as the model's `ast_echo` applied to the dumped AST
fn ast_echo_line(line: &str) -> String {
    let src = unhex(line);
    let doc = ast::Document::parse(src, "doc.graphql").unwrap_or_else(|e| e.partial);
    format!("{} size={}", astdump::document(&doc), doc.definitions.len())
}
