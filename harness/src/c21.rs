//! C21: the compiler never panics on adversarial input; recursion guards; sorted diagnostics.
//!
//! `c21_pipeline` runs the whole public pipeline on one (schema text, document text) pair inside a thread
//! with a small stack under catch_unwind and a watchdog; the other families observe the verdict of one
//! guarded traversal on the real crate so that it can be compared with the Gallina model
//! (coq/theories/Valid/Guards.v).  In a two-field case `<model input> <hex source>` the first field is for
//! the model runner and is ignored here.
use crate::util::*;
use apollo_compiler::ast;
use apollo_compiler::diagnostic::ToCliReport;
use apollo_compiler::executable::Selection;
use apollo_compiler::parser::Parser;
use apollo_compiler::parser::SourceSpan;
use apollo_compiler::request::coerce_variable_values;
use apollo_compiler::response::JsonMap;
use apollo_compiler::schema::ExtendedType;
use apollo_compiler::validation::DiagnosticList;
use apollo_compiler::validation::Valid;
use apollo_compiler::ExecutableDocument;
use apollo_compiler::Schema;
use std::collections::BTreeSet;
use std::panic::{catch_unwind, AssertUnwindSafe};
use std::sync::mpsc;
use std::time::Duration;

pub fn families() -> Vec<(&'static str, crate::Family)> {
    vec![
        ("c21_pipeline", pipeline),
        ("c21_ast_dump", ast_dump_deep),
        ("c21_schema_dump", schema_dump_deep),
        ("gd_input_cycle", gd_input_cycle),
        ("gd_dir_cycle", gd_dir_cycle),
        ("gd_frag_cycle", gd_frag_cycle),
        ("gd_walk", gd_walk),
        ("gd_merge", gd_merge),
        ("gd_sort", gd_sort),
    ]
}

const DEEP: usize = 1_000_000;

/// Run `f` in a thread with a large stack (the families that compare verdicts are not about stack use).
fn big<T: Send + 'static>(f: impl FnOnce() -> T + Send + 'static) -> T {
    let h = std::thread::Builder::new()
        .stack_size(1 << 30)
        .spawn(f)
        .expect("spawn");
    match h.join() {
        Ok(v) => v,
        Err(e) => std::panic::resume_unwind(e),
    }
}

fn panic_msg(e: Box<dyn std::any::Any + Send>) -> String {
    e.downcast_ref::<String>()
        .cloned()
        .or_else(|| e.downcast_ref::<&str>().map(|s| s.to_string()))
        .unwrap_or_default()
}

/// Run `f` in a thread with `stack_kib` KiB of stack, under catch_unwind, with a watchdog.
fn limited(stack_kib: usize, timeout_s: u64, f: impl FnOnce() -> String + Send + 'static) -> String {
    let (tx, rx) = mpsc::channel();
    let spawned = std::thread::Builder::new()
        .stack_size(stack_kib * 1024)
        .spawn(move || {
            let r = catch_unwind(AssertUnwindSafe(f));
            let _ = tx.send(r.map_err(panic_msg));
        });
    if spawned.is_err() {
        return "spawn-failed".to_string();
    }
    match rx.recv_timeout(Duration::from_secs(timeout_s)) {
        Ok(Ok(s)) => s,
        Ok(Err(msg)) => format!("panic {}", hex(&msg)),
        Err(mpsc::RecvTimeoutError::Timeout) => "timeout".to_string(),
        Err(mpsc::RecvTimeoutError::Disconnected) => "died".to_string(),
    }
}

// ---------------------------------------------------------------------------------------- pipeline

/// every introspection argument given as a variable without default (so that it can be omitted, null or a value)
const INTROSPECTION_QUERY_WITH_VARIABLES: &str = r#"
query IntrospectionWithVariables($d: Boolean, $n: String! = "Query") {
  __schema {
    types {
      name
      fields(includeDeprecated: $d) { name args(includeDeprecated: $d) { name } }
      enumValues(includeDeprecated: $d) { name }
      inputFields(includeDeprecated: $d) { name }
    }
    directives { name args(includeDeprecated: $d) { name } }
  }
  __type(name: $n) { name fields(includeDeprecated: $d) { name } }
}
"#;

const INTROSPECTION_QUERY: &str = r#"
query IntrospectionQuery {
  __schema {
    description
    queryType { name }
    mutationType { name }
    subscriptionType { name }
    types { ...FullType }
    directives { name description locations isRepeatable args(includeDeprecated: true) { ...InputValue } }
  }
}
fragment FullType on __Type {
  kind name description specifiedByURL
  fields(includeDeprecated: true) {
    name description
    args(includeDeprecated: true) { ...InputValue }
    type { ...TypeRef }
    isDeprecated deprecationReason
  }
  inputFields(includeDeprecated: true) { ...InputValue }
  interfaces { ...TypeRef }
  enumValues(includeDeprecated: true) { name description isDeprecated deprecationReason }
  possibleTypes { ...TypeRef }
}
fragment InputValue on __InputValue {
  name description type { ...TypeRef } defaultValue isDeprecated deprecationReason
}
fragment TypeRef on __Type {
  kind name ofType { kind name ofType { kind name ofType { kind name ofType { kind name ofType { kind name ofType { kind name ofType { kind name } } } } } } }
}
"#;

struct Obs {
    kinds: BTreeSet<String>,
    nerr: usize,
    unsorted: Vec<String>,
    rendered: usize,
    colour_seen: bool,
    rlimit: bool,
}

impl Obs {
    fn new() -> Self {
        Obs { kinds: BTreeSet::new(), nerr: 0, unsorted: vec![], rendered: 0, colour_seen: false, rlimit: false }
    }

    /// Evaluate the sortedness oracle on the whole list and render diagnostics in all forms: the first 3,
    /// the last one and the first of every kind (rendering all of a list of thousands adds time, not coverage).
    fn errors(&mut self, label: &str, errs: &DiagnosticList) {
        let mut prev: Option<Option<(apollo_compiler::parser::FileId, usize)>> = None;
        let n = errs.len();
        for (idx, d) in errs.iter().enumerate() {
            self.nerr += 1;
            let name = d.error.unstable_error_name();
            let kind = match name {
                Some(n) => {
                    if matches!(n, "RecursionError" | "RecursionLimitError" | "DeeplyNestedType") {
                        self.rlimit = true;
                    }
                    n.to_string()
                }
                None => {
                    let text = d.error.to_string();
                    if text.contains("limit reached") {
                        self.rlimit = true;
                        "ParserLimit".to_string()
                    } else if text.starts_with("syntax error") {
                        "SyntaxError".to_string()
                    } else {
                        "Build".to_string()
                    }
                }
            };
            let new_kind = self.kinds.insert(kind);
            if idx < 3 || idx + 1 >= n || new_kind {
                let plain = d.to_string();
                let coloured = format!("{d:?}");
                let report = d.to_report(apollo_compiler::diagnostic::Color::StderrIsTerminal).into_string();
                let json = serde_json::to_string(&d.to_json()).expect("json");
                let compat = serde_json::to_string(&d.unstable_to_json_compat()).expect("json");
                let _ = d.line_column_range();
                if coloured.contains('\u{1b}') || report.contains('\u{1b}') {
                    self.colour_seen = true;
                }
                self.rendered += plain.len() + coloured.len() + json.len() + compat.len();
            }
            let key = d.error.location().map(|l: SourceSpan| (l.file_id(), l.offset()));
            if let Some(p) = prev {
                if p > key {
                    self.unsorted.push(label.to_string());
                }
            }
            prev = Some(key);
        }
        // the list as a whole, too
        if n <= 20 {
            let all_plain = errs.to_string();
            let all_coloured = format!("{errs:?}");
            self.rendered += all_plain.len() + all_coloured.len();
        }
    }
}

fn three_ways<T: std::fmt::Display>(
    a: impl Fn() -> T,
    b: impl Fn() -> T,
    c: impl Fn() -> T,
) -> Vec<String> {
    vec![a().to_string(), b().to_string(), c().to_string()]
}

fn pipeline_body(schema_src: String, doc_src: String) -> String {
    let mut o = Obs::new();
    // AST level: parse, serialize three ways, re-parse
    for (label, src) in [("ast-schema", &schema_src), ("ast-doc", &doc_src)] {
        let doc = match ast::Document::parse(src.clone(), format!("{label}.graphql")) {
            Ok(d) => d,
            Err(e) => {
                o.errors(label, &e.errors);
                e.partial
            }
        };
        for text in three_ways(
            || doc.serialize(),
            || doc.serialize().no_indent(),
            || doc.serialize().indent_prefix("\t").initial_indent_level(2),
        ) {
            if let Err(e) = ast::Document::parse(text, "reparsed.graphql") {
                o.errors("ast-reparse", &e.errors);
            }
        }
        if let Err(e) = doc.validate_standalone_executable() {
            o.errors("standalone", &e);
        }
    }
    // schema: build + validate
    let (schema, schema_valid) = match Schema::parse_and_validate(schema_src.clone(), "schema.graphql") {
        Ok(s) => (s.into_inner(), true),
        Err(e) => {
            o.errors("schema", &e.errors);
            (e.partial, false)
        }
    };
    for text in three_ways(
        || schema.serialize(),
        || schema.serialize().no_indent(),
        || schema.serialize().indent_prefix("  ").initial_indent_level(1),
    ) {
        match Schema::parse_and_validate(text, "schema2.graphql") {
            Ok(_) => {}
            Err(e) => o.errors("schema-revalidate", &e.errors),
        }
    }
    // validate the (possibly partial) schema value again
    match schema.clone().validate() {
        Ok(_) => {}
        Err(e) => o.errors("schema-again", &e.errors),
    }
    let mut doc_valid = false;
    let mut introspected = 0usize;
    if schema_valid {
        let schema = Valid::assume_valid(schema); // it was returned as Valid<Schema> just above
        let implementers = schema.implementers_map();
        let mut run_doc = |o: &mut Obs, src: &str, label: &str| -> bool {
            let (doc, ok) = match ExecutableDocument::parse_and_validate(&schema, src.to_string(), "doc.graphql") {
                Ok(d) => (d.into_inner(), true),
                Err(e) => {
                    o.errors(label, &e.errors);
                    (e.partial, false)
                }
            };
            for text in three_ways(
                || doc.serialize(),
                || doc.serialize().no_indent(),
                || doc.serialize().indent_prefix("   ").initial_indent_level(3),
            ) {
                match ExecutableDocument::parse_and_validate(&schema, text, "doc2.graphql") {
                    Ok(_) => {}
                    Err(e) => o.errors("doc-revalidate", &e.errors),
                }
            }
            if ok {
                let doc = Valid::assume_valid(doc);
                for op in doc.operations.iter() {
                    if !op.is_query() {
                        continue;
                    }
                    // every variable omitted, then every variable provided as null / true / false where that coerces
                    let mut var_maps = vec![JsonMap::new()];
                    for json in ["null", "true", "false"] {
                        let mut m = JsonMap::new();
                        for v in op.variables.iter() {
                            m.insert(v.name.as_str(), serde_json::from_str(json).expect("json literal"));
                        }
                        if !m.is_empty() {
                            var_maps.push(m);
                        }
                    }
                    for raw in &var_maps {
                        if let Ok(vars) = coerce_variable_values(&schema, op, raw) {
                            match apollo_compiler::introspection::partial_execute(&schema, &implementers, &doc, op, &vars) {
                                Ok(resp) => {
                                    introspected += serde_json::to_string(&resp).expect("json").len().min(1);
                                }
                                Err(e) => {
                                    let _ = e.message().to_string();
                                }
                            }
                        }
                    }
                }
            }
            ok
        };
        doc_valid = run_doc(&mut o, &doc_src, "doc");
        let _ = run_doc(&mut o, INTROSPECTION_QUERY, "introspection-query");
        let _ = run_doc(&mut o, INTROSPECTION_QUERY_WITH_VARIABLES, "introspection-query-variables");
    }
    // mixed
    let mixed = format!("{schema_src}\n{doc_src}");
    if let Err(e) = Parser::new().parse_mixed_validate(mixed, "mixed.graphql") {
        o.errors("mixed", &e);
    }
    let kinds: Vec<String> = o.kinds.iter().cloned().collect();
    format!(
        "ok sv={} dv={} nerr={} intro={} rl={} colour={} kinds={} oracle={}",
        schema_valid as u8,
        doc_valid as u8,
        o.nerr,
        introspected,
        o.rlimit as u8,
        o.colour_seen as u8,
        if kinds.is_empty() { "-".to_string() } else { kinds.join(",") },
        if o.unsorted.is_empty() { "ok".to_string() } else { format!("bad:unsorted:{}", o.unsorted[0]) }
    )
}

/// input: `<stack KiB> <timeout s> <hex schema source> <hex document source>`
/// output: `ok sv= dv= nerr= intro= rl= colour= kinds=` | `panic <hex>` | `timeout` | `died`, then ` oracle=`
fn pipeline(line: &str) -> String {
    let p: Vec<&str> = line.split(' ').collect();
    let stack: usize = p[0].parse().expect("stack");
    let timeout: u64 = p[1].parse().expect("timeout");
    let (s, d) = (unhex(p[2]), unhex(p[3]));
    std::env::set_var("CLICOLOR_FORCE", "1");
    limited(stack, timeout, move || pipeline_body(s, d))
}

// ---------------------------------------------------------------------------------------- dumps

/// like c00's ast_dump but with the parser limits raised (deep structures are the point here)
fn ast_dump_deep(line: &str) -> String {
    let src = unhex(line);
    big(move || match Parser::new().recursion_limit(DEEP).parse_ast(src, "doc.graphql") {
        Ok(doc) => format!("ok {}", crate::astdump::document(&doc)),
        Err(e) => format!("errors {} {}", e.errors.len(), crate::astdump::document(&e.partial)),
    })
}

fn schema_dump_deep(line: &str) -> String {
    let src = unhex(line);
    big(move || {
        let mut b = Schema::builder();
        Parser::new().recursion_limit(DEEP).parse_into_schema_builder(src, "schema.graphql", &mut b);
        match b.build() {
            Ok(sch) => format!("ok {}", crate::schemadump::schema(&sch, true)),
            Err(e) => format!("errors {} {}", e.errors.len(), crate::schemadump::schema(&e.partial, true)),
        }
    })
}

// ---------------------------------------------------------------------------------------- verdicts

fn same_start(a: Option<SourceSpan>, b: Option<SourceSpan>) -> bool {
    match (a, b) {
        (Some(a), Some(b)) => a.file_id() == b.file_id() && a.offset() == b.offset(),
        _ => false,
    }
}

fn verdict_at(errs: Option<&DiagnosticList>, loc: Option<SourceSpan>, cycle_name: &str) -> &'static str {
    let Some(errs) = errs else { return "ok" };
    let (mut cycle, mut limit) = (false, false);
    for d in errs.iter() {
        if !same_start(d.error.location(), loc) {
            continue;
        }
        match d.error.unstable_error_name() {
            Some(n) if n == cycle_name => cycle = true,
            Some("DeeplyNestedType") => limit = true,
            _ => {}
        }
    }
    match (cycle, limit) {
        (true, true) => "both",
        (true, false) => "cycle",
        (false, true) => "limit",
        (false, false) => "ok",
    }
}

fn validate_schema_text(src: String) -> (Schema, Option<DiagnosticList>) {
    let mut b = Schema::builder();
    Parser::new().recursion_limit(DEEP).parse_into_schema_builder(src, "schema.graphql", &mut b);
    let built = match b.build() {
        Ok(s) => s,
        Err(e) => e.partial,
    };
    match built.validate() {
        Ok(s) => (s.into_inner(), None),
        Err(e) => (e.partial, Some(e.errors)),
    }
}

fn join(v: Vec<String>) -> String {
    if v.is_empty() {
        "-".to_string()
    } else {
        v.join(",")
    }
}

/// input: `<schema dump> <hex schema source>`; output: `Name=ok|cycle|limit,...` for every input object
fn gd_input_cycle(line: &str) -> String {
    let src = unhex(line.split(' ').nth(1).expect("source"));
    big(move || {
        let (schema, errs) = validate_schema_text(src);
        let mut out = vec![];
        for (name, ty) in &schema.types {
            if let ExtendedType::InputObject(io) = ty {
                out.push(format!(
                    "{}={}",
                    name,
                    verdict_at(errs.as_ref(), io.location(), "RecursiveInputObjectDefinition")
                ));
            }
        }
        join(out)
    })
}

/// input: `<schema dump> <hex schema source>`; output: `name=ok|cycle|limit,...` for every directive definition
fn gd_dir_cycle(line: &str) -> String {
    let src = unhex(line.split(' ').nth(1).expect("source"));
    big(move || {
        let (schema, errs) = validate_schema_text(src);
        let mut out = vec![];
        for (name, def) in &schema.directive_definitions {
            out.push(format!(
                "{}={}",
                name,
                verdict_at(errs.as_ref(), def.location(), "RecursiveDirectiveDefinition")
            ));
        }
        join(out)
    })
}

const EXEC_SCHEMA: &str = "type Query { a: Query b: Query c: Query x: Int y: Int }
type Mutation { a: Query b: Query x: Int m: Mutation }
type Subscription { a: Query b: Query x: Int s: Subscription }
directive @defer(label: String, if: Boolean! = true) on FRAGMENT_SPREAD | INLINE_FRAGMENT
";

fn exec_schema() -> Valid<Schema> {
    Schema::parse_and_validate(EXEC_SCHEMA, "exec_schema.graphql").expect("fixed schema")
}

fn validate_doc_text(schema: &Valid<Schema>, src: String) -> (ExecutableDocument, Option<DiagnosticList>) {
    let doc = match Parser::new().recursion_limit(DEEP).parse_executable(schema, src, "doc.graphql") {
        Ok(d) => d,
        Err(e) => e.partial,
    };
    match doc.validate(schema) {
        Ok(d) => (d.into_inner(), None),
        Err(e) => (e.partial, Some(e.errors)),
    }
}

/// input: `<ast dump> <hex document source>` (validated against EXEC_SCHEMA);
/// output: `Name=ok|cycle|limit,...` for every fragment definition
fn gd_frag_cycle(line: &str) -> String {
    let src = unhex(line.split(' ').nth(1).expect("source"));
    big(move || {
        let schema = exec_schema();
        let (doc, errs) = validate_doc_text(&schema, src);
        let mut out = vec![];
        for (name, frag) in &doc.fragments {
            out.push(format!(
                "{}={}",
                name,
                verdict_at(errs.as_ref(), frag.location(), "RecursiveFragmentDefinition")
            ));
        }
        join(out)
    })
}

/// input: `<ast dump> <hex document source> <schema dump>`; output: `rec=<n> used=<n> defer_root=<n> uncond=<n> undef=<n>`:
/// the number of RecursionError diagnostics (unused-variable walk, selection validation, @defer walks,
/// subscription walk), of RecursionLimitError diagnostics without location (fragments-used walk), of the
/// diagnostics of the two @defer walks that follow fragment spreads, and of UndefinedFragment diagnostics
/// (pushed by the selection validation walk for every spread of an undefined fragment it visits).
fn gd_walk(line: &str) -> String {
    let src = unhex(line.split(' ').nth(1).expect("source"));
    big(move || {
        let schema = exec_schema();
        let (_doc, errs) = validate_doc_text(&schema, src);
        let (mut rec, mut used, mut root, mut uncond, mut merge, mut undef) = (0, 0, 0, 0, 0, 0);
        if let Some(errs) = &errs {
            for d in errs.iter() {
                match d.error.unstable_error_name() {
                    Some("RecursionError") => rec += 1,
                    Some("RecursionLimitError") => {
                        if d.error.location().is_none() {
                            used += 1
                        } else {
                            merge += 1
                        }
                    }
                    Some("DeferOnRootMutationOrSubscriptionField") => root += 1,
                    Some("DeferInSubscriptionMustBeConditional") => uncond += 1,
                    Some("UndefinedFragment") => undef += 1,
                    _ => {}
                }
            }
        }
        let _ = merge;
        format!("rec={rec} used={used} defer_root={root} uncond={uncond} undef={undef}")
    })
}

/// input: `<graph> <hex document source>`; output: one 0/1 per operation: RecursionLimitError at the operation
fn gd_merge(line: &str) -> String {
    let src = unhex(line.split(' ').nth(1).expect("source"));
    big(move || {
        let schema = exec_schema();
        let (doc, errs) = validate_doc_text(&schema, src);
        let mut out = vec![];
        for op in doc.operations.iter() {
            let mut hit = false;
            if let Some(errs) = &errs {
                for d in errs.iter() {
                    if d.error.unstable_error_name() == Some("RecursionLimitError")
                        && same_start(d.error.location(), op.location())
                    {
                        hit = true;
                    }
                }
            }
            out.push(if hit { "1" } else { "0" }.to_string());
        }
        let _ = Selection::Field; // (type is used by other families of this file)
        join(out)
    })
}

// ---------------------------------------------------------------------------------------- sort

fn fnv(s: &str) -> u64 {
    let mut h: u64 = 0xcbf29ce484222325;
    for b in s.bytes() {
        h ^= b as u64;
        h = h.wrapping_mul(0x100000001b3);
    }
    h
}

/// input: `<order> <hex source 1> <hex source 2>`: each source is parsed once (one file id), giving up to
/// three diagnostic lists (parse errors, schema build errors, schema validation errors); `order` is a
/// string of digits 0..5 naming the lists to merge, in that order, with `DiagnosticList::merge`.
/// output: `in=<f.o.h;...> out=<f.o.h;...>`: file rank (or `n`), offset, message hash of every element of the
/// concatenation and of the merged list; oracle: out is sorted, a permutation of in, and stable.
fn gd_sort(line: &str) -> String {
    let p: Vec<String> = line.split(' ').map(|s| s.to_string()).collect();
    big(move || {
        let mut lists: Vec<DiagnosticList> = vec![];
        for h in [&p[1], &p[2]] {
            let src = unhex(h);
            let (ast, perr) = match ast::Document::parse(src, "src.graphql") {
                Ok(d) => (d.clone(), DiagnosticList::new(d.sources.clone())),
                Err(e) => (e.partial, e.errors),
            };
            let (schema, berr) = match ast.to_schema() {
                Ok(s) => (s.clone(), DiagnosticList::new(s.sources.clone())),
                Err(e) => (e.partial, e.errors),
            };
            let verr = match schema.validate() {
                Ok(s) => DiagnosticList::new(s.sources.clone()),
                Err(e) => e.errors,
            };
            lists.push(perr);
            lists.push(berr);
            lists.push(verr);
        }
        let order: Vec<usize> = p[0].bytes().map(|b| (b - b'0') as usize).filter(|i| *i < 6).collect();
        let mut files = BTreeSet::new();
        for l in &lists {
            for d in l.iter() {
                if let Some(loc) = d.error.location() {
                    files.insert(loc.file_id());
                }
            }
        }
        let files: Vec<_> = files.into_iter().collect();
        let show = |d: &apollo_compiler::diagnostic::Diagnostic<'_, apollo_compiler::validation::DiagnosticData>| {
            let h = fnv(&d.error.to_string()) % 100000;
            match d.error.location() {
                None => format!("n.0.{h}"),
                Some(loc) => format!(
                    "{}.{}.{h}",
                    files.iter().position(|f| *f == loc.file_id()).unwrap(),
                    loc.offset()
                ),
            }
        };
        let mut input: Vec<String> = vec![];
        let mut acc: Option<DiagnosticList> = None;
        for i in order {
            input.extend(lists[i].iter().map(|d| show(&d)));
            acc = Some(match acc {
                None => {
                    // merge into an empty list so that the first list is sorted by `merge` as well
                    let mut e = DiagnosticList::new(Default::default());
                    e.merge(lists[i].clone());
                    e
                }
                Some(mut a) => {
                    a.merge(lists[i].clone());
                    a
                }
            });
        }
        let out: Vec<String> = acc.map(|a| a.iter().map(|d| show(&d)).collect()).unwrap_or_default();
        // oracle, independent of the model: sorted, permutation, stable
        let key = |s: &String| -> (u8, u64, u64) {
            let q: Vec<&str> = s.split('.').collect();
            if q[0] == "n" {
                (0, 0, 0)
            } else {
                (1, q[0].parse().unwrap(), q[1].parse().unwrap())
            }
        };
        let mut oracle = "ok".to_string();
        if out.windows(2).any(|w| key(&w[0]) > key(&w[1])) {
            oracle = "bad:unsorted".to_string();
        }
        let (mut a, mut b) = (input.clone(), out.clone());
        a.sort();
        b.sort();
        if a != b {
            oracle = "bad:not-a-permutation".to_string();
        }
        let mut keys: Vec<_> = input.iter().map(key).collect();
        keys.sort();
        keys.dedup();
        for k in keys {
            let x: Vec<&String> = input.iter().filter(|s| key(s) == k).collect();
            let y: Vec<&String> = out.iter().filter(|s| key(s) == k).collect();
            if x != y && oracle == "ok" {
                oracle = "bad:unstable".to_string();
            }
        }
        let j = |v: &Vec<String>| if v.is_empty() { "-".to_string() } else { v.join(";") };
        format!("in={} out={} oracle={}", j(&input), j(&out), oracle)
    })
}
