//! C28: variable coercion (request::coerce_variable_values), and the JSON transport shared by C26/C27.
//!
//! Compact JSON text (term grammar of astdump.rs, read by coq/ocaml/lib_json.ml into Run/Json.v's `json`):
//!   Jn | Jt | Jx | Ji(<decimal>) | Jd(h<hex of the number's text>) | Js(<str>) | Ja([..;..]) | Jo([P(<str>,v);..])
use crate::astdump::{list, s};
use crate::util::*;
use apollo_compiler::response::{JsonMap, JsonValue};
use apollo_compiler::validation::Valid;
use apollo_compiler::{ExecutableDocument, Schema};

pub fn families() -> Vec<(&'static str, crate::Family)> {
    vec![("json_dump", json_dump), ("coerce_vars", coerce_vars)]
}

/// `sorted`: object keys in byte order (observations); otherwise in the map's own order (inputs).
pub fn json_text(v: &JsonValue, sorted: bool) -> String {
    match v {
        JsonValue::Null => "Jn".to_string(),
        JsonValue::Bool(true) => "Jt".to_string(),
        JsonValue::Bool(false) => "Jx".to_string(),
        JsonValue::Number(n) => {
            if n.is_f64() {
                format!("Jd({})", s(&n.to_string()))
            } else {
                format!("Ji({n})")
            }
        }
        JsonValue::String(x) => format!("Js({})", s(x.as_str())),
        JsonValue::Array(a) => format!("Ja({})", list(a.iter(), |x| json_text(x, sorted))),
        JsonValue::Object(m) => format!("Jo({})", map_text(m, sorted)),
    }
}

pub fn map_text(m: &JsonMap, sorted: bool) -> String {
    let mut items: Vec<(&str, &JsonValue)> = m.iter().map(|(k, v)| (k.as_str(), v)).collect();
    if sorted {
        items.sort_by(|a, b| a.0.as_bytes().cmp(b.0.as_bytes()));
    }
    list(items, |(k, v)| format!("P({},{})", s(k), json_text(v, sorted)))
}

pub fn parse_json(text: &str) -> Result<JsonValue, String> {
    serde_json::from_str::<JsonValue>(text).map_err(|e| e.to_string())
}

/// input: hex JSON text; output: `ok <compact json, keys in map order>` | `err`
fn json_dump(line: &str) -> String {
    match parse_json(&unhex(line)) {
        Ok(v) => format!("ok {}", json_text(&v, false)),
        Err(_) => "err".to_string(),
    }
}

pub fn parse_valid(schema_src: &str, doc_src: &str) -> Result<(Valid<Schema>, Valid<ExecutableDocument>), String> {
    let schema = Schema::parse_and_validate(schema_src, "schema.graphql").map_err(|_| "invalid-schema".to_string())?;
    let doc = ExecutableDocument::parse_and_validate(&schema, doc_src, "doc.graphql")
        .map_err(|_| "invalid-document".to_string())?;
    Ok((schema, doc))
}

/// input: `<hex schema> <hex document> <hex JSON object of variable values>`
/// output: `ok <compact json, sorted keys>` | `err value` | `err bug` | `invalid-schema` | `invalid-document`
fn coerce_vars(line: &str) -> String {
    let p: Vec<&str> = line.split(' ').collect();
    let (schema, doc) = match parse_valid(&unhex(p[0]), &unhex(p[1])) {
        Ok(x) => x,
        Err(e) => return e,
    };
    let values = parse_json(&unhex(p[2])).expect("variables JSON");
    let values = values.as_object().expect("variables object");
    let Ok(op) = doc.operations.get(None) else {
        return "invalid-document".to_string();
    };
    match apollo_compiler::request::coerce_variable_values(&schema, op, values) {
        Ok(r) => format!("ok Jo({})", map_text(&r, true)),
        Err(e) => {
            let g = e.to_graphql_error(&doc.sources);
            if g.extensions.contains_key("APOLLO_SUSPECTED_VALIDATION_BUG") {
                "err bug".to_string()
            } else {
                "err value".to_string()
            }
        }
    }
}
