//! C22: outputs are deterministic across processes regardless of per-process hash seeds.
//!
//! `c22_hashes` prints, for one input, a digest of every product the property names; the driver runs it in
//! N separate processes and compares the lines (the `probe=` field, a hash of a fixed string under this
//! process's hasher keys, shows that the seeds differed and is not compared).
use crate::util::*;
use apollo_compiler::ast;
use apollo_compiler::request::coerce_variable_values;
use apollo_compiler::response::JsonMap;
use apollo_compiler::schema::ExtendedType;
use apollo_compiler::validation::DiagnosticList;
use apollo_compiler::validation::Valid;
use apollo_compiler::ExecutableDocument;
use apollo_compiler::Name;
use apollo_compiler::Schema;
use std::hash::BuildHasher;

pub fn families() -> Vec<(&'static str, crate::Family)> {
    vec![("c22_hashes", c22_hashes), ("c22_smith", c22_smith), ("c22_revalidate", c22_revalidate)]
}

fn fnv(s: &str) -> u64 {
    let mut h: u64 = 0xcbf29ce484222325;
    for b in s.bytes() {
        h ^= b as u64;
        h = h.wrapping_mul(0x100000001b3);
    }
    h
}

fn digest(s: &str) -> String {
    format!("{}:{:016x}", s.len(), fnv(s))
}

/// a hash of a fixed string under the keys of a fresh map of this process
fn probe() -> String {
    let m: apollo_compiler::collections::HashMap<u8, u8> = Default::default();
    format!("{:016x}", m.hasher().hash_one("c22 probe"))
}

fn diag_text(errs: &DiagnosticList) -> String {
    // Display shows paths, lines and columns, never file ids; JSON likewise
    let mut s = errs.to_string();
    for d in errs.iter() {
        s.push_str(&serde_json::to_string(&d.to_json()).expect("json"));
        s.push('\n');
    }
    s
}

const INTROSPECTION_QUERY: &str = "query IntrospectionQuery { __schema { description queryType { name } mutationType { name } subscriptionType { name } types { ...FullType } directives { name description locations isRepeatable args(includeDeprecated: true) { ...InputValue } } } } fragment FullType on __Type { kind name description specifiedByURL fields(includeDeprecated: true) { name description args(includeDeprecated: true) { ...InputValue } type { ...TypeRef } isDeprecated deprecationReason } inputFields(includeDeprecated: true) { ...InputValue } interfaces { ...TypeRef } enumValues(includeDeprecated: true) { name description isDeprecated deprecationReason } possibleTypes { ...TypeRef } } fragment InputValue on __InputValue { name description type { ...TypeRef } defaultValue isDeprecated deprecationReason } fragment TypeRef on __Type { kind name ofType { kind name ofType { kind name ofType { kind name ofType { kind name } } } } }";

fn introspect(schema: &Valid<Schema>, doc: &Valid<ExecutableDocument>) -> String {
    let implementers = schema.implementers_map();
    let mut out = String::new();
    for op in doc.operations.iter() {
        if !op.is_query() {
            continue;
        }
        if let Ok(vars) = coerce_variable_values(schema, op, &JsonMap::new()) {
            match apollo_compiler::introspection::partial_execute(schema, &implementers, doc, op, &vars) {
                Ok(resp) => out.push_str(&serde_json::to_string(&resp).expect("json")),
                Err(e) => out.push_str(&format!("request error: {}", e.message())),
            }
        }
        out.push('\n');
    }
    out
}

/// input: `<repeat> <hex schema source> <hex document source>`
/// output: `probe=<hex> runs=<n> <digests of run 1>`, or `intra-process-difference ...` when two of the `repeat`
/// runs inside this process differ (every new HashMap gets fresh keys, so that already is a finding)
fn c22_hashes(line: &str) -> String {
    let p: Vec<&str> = line.split(' ').collect();
    let repeat: usize = p[0].parse().expect("repeat");
    let (schema_src, doc_src) = (unhex(p[1]), unhex(p[2]));
    let mut first: Option<String> = None;
    for _ in 0..repeat.max(1) {
        let r = one_run(&schema_src, &doc_src);
        match &first {
            None => first = Some(r),
            Some(f) if *f != r => return format!("probe={} intra-process-difference {} /// {}", probe(), f, r),
            _ => {}
        }
    }
    format!("probe={} runs={} {}", probe(), repeat.max(1), first.unwrap())
}

fn one_run(schema_src: &str, doc_src: &str) -> String {
    let mut out = vec![];
    let (schema, sdiag, svalid) = match Schema::parse_and_validate(schema_src.to_string(), "schema.graphql") {
        Ok(s) => (s.into_inner(), String::new(), true),
        Err(e) => (e.partial, diag_text(&e.errors), false),
    };
    out.push(format!("schema={}", digest(&schema.to_string())));
    let type_names: Vec<&str> = schema.types.keys().map(|n| n.as_str()).collect();
    out.push(format!("types={}", digest(&type_names.join(","))));
    out.push(format!("sdiag={}", digest(&sdiag)));
    if svalid {
        let schema = Valid::assume_valid(schema); // returned as Valid<Schema> above
        let (doc, ddiag, dvalid) =
            match ExecutableDocument::parse_and_validate(&schema, doc_src.to_string(), "doc.graphql") {
                Ok(d) => (d.into_inner(), String::new(), true),
                Err(e) => (e.partial, diag_text(&e.errors), false),
            };
        out.push(format!("doc={}", digest(&doc.to_string())));
        out.push(format!("ddiag={}", digest(&ddiag)));
        if dvalid {
            out.push(format!("intro={}", digest(&introspect(&schema, &Valid::assume_valid(doc)))));
        }
        if let Ok(q) = ExecutableDocument::parse_and_validate(&schema, INTROSPECTION_QUERY, "intro.graphql") {
            out.push(format!("full={}", digest(&introspect(&schema, &q))));
        }
        let im = schema.implementers_map();
        let mut keys: Vec<String> = im
            .iter()
            .map(|(k, v)| {
                format!(
                    "{k}:{}:{}",
                    v.objects.iter().map(|n| n.as_str()).collect::<Vec<_>>().join("+"),
                    v.interfaces.iter().map(|n| n.as_str()).collect::<Vec<_>>().join("+")
                )
            })
            .collect();
        keys.sort(); // the map itself is a HashMap handed to the caller: only its content is compared
        out.push(format!("impl={}", digest(&keys.join(","))));
    } else {
        // without a valid schema: AST level
        let ast = match ast::Document::parse(doc_src.to_string(), "doc.graphql") {
            Ok(d) => d,
            Err(e) => e.partial,
        };
        out.push(format!("doc={}", digest(&ast.to_string())));
        let ddiag = match ast.validate_standalone_executable() {
            Ok(()) => String::new(),
            Err(e) => diag_text(&e),
        };
        out.push(format!("ddiag={}", digest(&ddiag)));
    }
    // mixed document
    let mixed = format!("{schema_src}\n{doc_src}");
    let mdiag = match apollo_compiler::parser::Parser::new().parse_mixed_validate(mixed, "mixed.graphql") {
        Ok(_) => String::new(),
        Err(e) => diag_text(&e),
    };
    out.push(format!("mdiag={}", digest(&mdiag)));
    out.join(" ")
}

/// The history of the former defect D15: validate, unwrap, add fields of the pruned built-in scalar types,
/// validate again; the order of `types` must not depend on the process.
/// input: `<repeat> <hex schema source>`
fn c22_revalidate(line: &str) -> String {
    let p: Vec<&str> = line.split(' ').collect();
    let repeat: usize = p[0].parse().expect("repeat");
    let src = unhex(p[1]);
    let mut first: Option<String> = None;
    for _ in 0..repeat.max(1) {
        let r = match Schema::parse_and_validate(src.clone(), "schema.graphql") {
            Err(e) => format!("invalid {}", e.errors.len()),
            Ok(valid) => {
                let mut schema = valid.into_inner();
                let query = schema.schema_definition.query.as_ref().map(|q| q.name.clone());
                let mut added = vec![];
                if let Some(q) = query {
                    if let Some(ExtendedType::Object(obj)) = schema.types.get_mut(&q) {
                        let obj = obj.make_mut();
                        for (i, scalar) in ["Float", "ID", "Boolean", "Int", "String"].iter().enumerate() {
                            let fname = Name::new(&format!("added{i}")).expect("name");
                            let def = ast::FieldDefinition {
                                description: None,
                                name: fname.clone(),
                                arguments: vec![],
                                ty: ast::Type::Named(Name::new(scalar).expect("name")),
                                directives: Default::default(),
                            };
                            obj.fields.insert(fname, apollo_compiler::schema::Component::new(def));
                            added.push(*scalar);
                        }
                    }
                }
                let before: Vec<String> = schema.types.keys().map(|n| n.to_string()).collect();
                match schema.validate() {
                    Ok(v) => {
                        let names: Vec<&str> = v.types.keys().map(|n| n.as_str()).collect();
                        let full = ExecutableDocument::parse_and_validate(&v, INTROSPECTION_QUERY, "intro.graphql")
                            .map(|q| introspect(&v, &q))
                            .unwrap_or_default();
                        format!(
                            "ok before={} types={} intro={} text={}",
                            before.len(),
                            names.join(","),
                            digest(&full),
                            digest(&v.to_string())
                        )
                    }
                    Err(e) => format!("revalidation-errors {}", digest(&diag_text(&e.errors))),
                }
            }
        };
        match &first {
            None => first = Some(r),
            Some(f) if *f != r => return format!("probe={} intra-process-difference {} /// {}", probe(), f, r),
            _ => {}
        }
    }
    format!("probe={} runs={} {}", probe(), repeat.max(1), first.unwrap())
}

/// apollo-smith: the same bytes give the same document.
/// input: `<repeat> <mode> <hex bytes as hex text> [<hex seed document>]`; mode `new` uses DocumentBuilder::new,
/// mode `with` uses DocumentBuilder::with_document on the parsed seed document.
fn c22_smith(line: &str) -> String {
    let p: Vec<&str> = line.split(' ').collect();
    let repeat: usize = p[0].parse().expect("repeat");
    let mode = p[1];
    let bytes: Vec<u8> = if p[2] == "-" {
        vec![]
    } else {
        (0..p[2].len() / 2).map(|i| u8::from_str_radix(&p[2][2 * i..2 * i + 2], 16).expect("hex")).collect()
    };
    let seed = p.get(3).map(|h| unhex(h));
    let mut first: Option<String> = None;
    for _ in 0..repeat.max(1) {
        let mut u = apollo_smith::Unstructured::new(&bytes);
        let built = if mode == "with" {
            let cst = apollo_parser::Parser::new(seed.as_deref().unwrap_or("")).parse();
            match apollo_smith::Document::try_from(cst.document()) {
                Err(_) => Err("seed".to_string()),
                Ok(doc) => match apollo_smith::DocumentBuilder::with_document(&mut u, doc) {
                    Err(e) => Err(format!("with_document {e:?}")),
                    Ok(b) => b.build().map_err(|e| format!("{e:?}")),
                },
            }
        } else {
            apollo_smith::DocumentBuilder::new(&mut u).build().map_err(|e| format!("{e:?}"))
        };
        let r = match built {
            Ok(doc) => format!("doc={}", digest(&String::from(doc))),
            Err(e) => format!("err={}", hex(&e)),
        };
        match &first {
            None => first = Some(r),
            Some(f) if *f != r => return format!("probe={} intra-process-difference {} /// {}", probe(), f, r),
            _ => {}
        }
    }
    format!("probe={} runs={} {}", probe(), repeat.max(1), first.unwrap())
}
