//! Compact, space-free text form of `ast::Document` (locations erased), read by coq/ocaml/lib_ast.ml
//! into the Gallina AST of coq/theories/Ast/Ast.v.
//! term := ident [ '(' term {',' term} ')' ] | '[' [ term {';' term} ] ']'
use apollo_compiler::ast;
use apollo_compiler::Node;

pub fn s(x: &str) -> String {
    if x.is_empty() {
        "e".to_string()
    } else {
        let mut o = String::with_capacity(1 + 2 * x.len());
        o.push('h');
        for b in x.bytes() {
            o.push_str(&format!("{b:02x}"));
        }
        o
    }
}

pub fn list<T>(items: impl IntoIterator<Item = T>, f: impl Fn(T) -> String) -> String {
    let v: Vec<String> = items.into_iter().map(f).collect();
    format!("[{}]", v.join(";"))
}

pub fn opt<T>(x: Option<T>, f: impl Fn(T) -> String) -> String {
    match x {
        None => "N".to_string(),
        Some(v) => format!("S({})", f(v)),
    }
}

pub fn ty(t: &ast::Type) -> String {
    match t {
        ast::Type::Named(n) => format!("Tn({})", s(n)),
        ast::Type::NonNullNamed(n) => format!("TN({})", s(n)),
        ast::Type::List(t) => format!("Tl({})", ty(t)),
        ast::Type::NonNullList(t) => format!("TL({})", ty(t)),
    }
}

pub fn value(v: &ast::Value) -> String {
    match v {
        ast::Value::Null => "Vn".to_string(),
        ast::Value::Enum(n) => format!("Ve({})", s(n)),
        ast::Value::Variable(n) => format!("Vv({})", s(n)),
        ast::Value::String(x) => format!("Vs({})", s(x)),
        ast::Value::Float(f) => format!("Vf({})", s(f.as_str())),
        ast::Value::Int(i) => format!("Vi({})", s(i.as_str())),
        ast::Value::Boolean(true) => "Vt".to_string(),
        ast::Value::Boolean(false) => "Vx".to_string(),
        ast::Value::List(l) => format!("Vl({})", list(l.iter(), |x| value(x))),
        ast::Value::Object(l) => format!(
            "Vo({})",
            list(l.iter(), |(n, x)| format!("P({},{})", s(n), value(x)))
        ),
    }
}

pub fn args(a: &[Node<ast::Argument>]) -> String {
    list(a.iter(), |a| format!("P({},{})", s(&a.name), value(&a.value)))
}

pub fn dir(d: &ast::Directive) -> String {
    format!("D({},{})", s(&d.name), args(&d.arguments))
}

pub fn dirs(d: &ast::DirectiveList) -> String {
    list(d.iter(), |d| dir(d))
}

pub fn sels(l: &[ast::Selection]) -> String {
    list(l.iter(), |x| match x {
        ast::Selection::Field(f) => format!(
            "F({},{},{},{},{})",
            opt(f.alias.as_ref(), |a| s(a)),
            s(&f.name),
            args(&f.arguments),
            dirs(&f.directives),
            sels(&f.selection_set)
        ),
        ast::Selection::FragmentSpread(f) => {
            format!("Sp({},{})", s(&f.fragment_name), dirs(&f.directives))
        }
        ast::Selection::InlineFragment(f) => format!(
            "In({},{},{})",
            opt(f.type_condition.as_ref(), |a| s(a)),
            dirs(&f.directives),
            sels(&f.selection_set)
        ),
    })
}

pub fn optype(o: ast::OperationType) -> &'static str {
    match o {
        ast::OperationType::Query => "q",
        ast::OperationType::Mutation => "m",
        ast::OperationType::Subscription => "s",
    }
}

pub fn desc(d: &Option<Node<str>>) -> String {
    opt(d.as_ref(), |d| s(d))
}

pub fn iv(v: &ast::InputValueDefinition) -> String {
    format!(
        "Iv({},{},{},{},{})",
        desc(&v.description),
        s(&v.name),
        ty(&v.ty),
        opt(v.default_value.as_ref(), |d| value(d)),
        dirs(&v.directives)
    )
}

pub fn ivs(l: &[Node<ast::InputValueDefinition>]) -> String {
    list(l.iter(), |v| iv(v))
}

pub fn fd(f: &ast::FieldDefinition) -> String {
    format!(
        "Fd({},{},{},{},{})",
        desc(&f.description),
        s(&f.name),
        ivs(&f.arguments),
        ty(&f.ty),
        dirs(&f.directives)
    )
}

pub fn fds(l: &[Node<ast::FieldDefinition>]) -> String {
    list(l.iter(), |f| fd(f))
}

pub fn ev(e: &ast::EnumValueDefinition) -> String {
    format!("Ev({},{},{})", desc(&e.description), s(&e.value), dirs(&e.directives))
}

pub fn evs(l: &[Node<ast::EnumValueDefinition>]) -> String {
    list(l.iter(), |e| ev(e))
}

fn roots(l: &[Node<(ast::OperationType, ast::NamedType)>]) -> String {
    list(l.iter(), |r| format!("P({},{})", optype(r.0), s(&r.1)))
}

fn names(l: &[apollo_compiler::Name]) -> String {
    list(l.iter(), |n| s(n))
}

pub fn definition(d: &ast::Definition) -> String {
    use ast::Definition as D;
    match d {
        D::OperationDefinition(o) => format!(
            "DOp({},{},{},{},{})",
            optype(o.operation_type),
            opt(o.name.as_ref(), |n| s(n)),
            list(o.variables.iter(), |v| format!(
                "Vd({},{},{},{})",
                s(&v.name),
                ty(&v.ty),
                opt(v.default_value.as_ref(), |d| value(d)),
                dirs(&v.directives)
            )),
            dirs(&o.directives),
            sels(&o.selection_set)
        ),
        D::FragmentDefinition(f) => format!(
            "DFr({},{},{},{})",
            s(&f.name),
            s(&f.type_condition),
            dirs(&f.directives),
            sels(&f.selection_set)
        ),
        D::DirectiveDefinition(x) => format!(
            "DDi({},{},{},{},{})",
            desc(&x.description),
            s(&x.name),
            ivs(&x.arguments),
            if x.repeatable { "t" } else { "f" },
            list(x.locations.iter(), |l| l.name().to_string())
        ),
        D::SchemaDefinition(x) => format!(
            "DSc({},{},{})",
            desc(&x.description),
            dirs(&x.directives),
            roots(&x.root_operations)
        ),
        D::ScalarTypeDefinition(x) => {
            format!("DSa({},{},{})", desc(&x.description), s(&x.name), dirs(&x.directives))
        }
        D::ObjectTypeDefinition(x) => format!(
            "DOb({},{},{},{},{})",
            desc(&x.description),
            s(&x.name),
            names(&x.implements_interfaces),
            dirs(&x.directives),
            fds(&x.fields)
        ),
        D::InterfaceTypeDefinition(x) => format!(
            "DIf({},{},{},{},{})",
            desc(&x.description),
            s(&x.name),
            names(&x.implements_interfaces),
            dirs(&x.directives),
            fds(&x.fields)
        ),
        D::UnionTypeDefinition(x) => format!(
            "DUn({},{},{},{})",
            desc(&x.description),
            s(&x.name),
            dirs(&x.directives),
            names(&x.members)
        ),
        D::EnumTypeDefinition(x) => format!(
            "DEn({},{},{},{})",
            desc(&x.description),
            s(&x.name),
            dirs(&x.directives),
            evs(&x.values)
        ),
        D::InputObjectTypeDefinition(x) => format!(
            "DIn({},{},{},{})",
            desc(&x.description),
            s(&x.name),
            dirs(&x.directives),
            ivs(&x.fields)
        ),
        D::SchemaExtension(x) => format!("XSc({},{})", dirs(&x.directives), roots(&x.root_operations)),
        D::ScalarTypeExtension(x) => format!("XSa({},{})", s(&x.name), dirs(&x.directives)),
        D::ObjectTypeExtension(x) => format!(
            "XOb({},{},{},{})",
            s(&x.name),
            names(&x.implements_interfaces),
            dirs(&x.directives),
            fds(&x.fields)
        ),
        D::InterfaceTypeExtension(x) => format!(
            "XIf({},{},{},{})",
            s(&x.name),
            names(&x.implements_interfaces),
            dirs(&x.directives),
            fds(&x.fields)
        ),
        D::UnionTypeExtension(x) => {
            format!("XUn({},{},{})", s(&x.name), dirs(&x.directives), names(&x.members))
        }
        D::EnumTypeExtension(x) => {
            format!("XEn({},{},{})", s(&x.name), dirs(&x.directives), evs(&x.values))
        }
        D::InputObjectTypeExtension(x) => {
            format!("XIn({},{},{})", s(&x.name), dirs(&x.directives), ivs(&x.fields))
        }
    }
}

pub fn document(d: &ast::Document) -> String {
    list(d.definitions.iter(), |x| definition(x))
}
