//! C15: valid schemas are internally consistent.  `consistent_impl` evaluates the conjunction of
//! Schema/Consistent.v on the real `Valid<Schema>` through its public fields only, independently of the
//! validator (own traversal, own cycle search, own covariance check).
use crate::util::*;
use apollo_compiler::ast::Type;
use apollo_compiler::schema::{Component, ExtendedType, FieldDefinition, InputValueDefinition};
use apollo_compiler::Node;
use apollo_compiler::Schema;
use std::collections::{BTreeSet, HashMap};

pub fn families() -> Vec<(&'static str, crate::Family)> {
    vec![("c15_dump", c15_dump), ("c15_check", c15_check), ("c15_hist", c15_hist)]
}

const BUILTIN_SCALARS: [&str; 5] = ["Int", "Float", "String", "Boolean", "ID"];

fn is_input_kind(t: &ExtendedType) -> bool {
    matches!(t, ExtendedType::Scalar(_) | ExtendedType::Enum(_) | ExtendedType::InputObject(_))
}

fn fields_of(t: &ExtendedType) -> Vec<&Component<FieldDefinition>> {
    match t {
        ExtendedType::Object(o) => o.fields.values().collect(),
        ExtendedType::Interface(i) => i.fields.values().collect(),
        _ => vec![],
    }
}

fn impls_of(t: &ExtendedType) -> Vec<&str> {
    match t {
        ExtendedType::Object(o) => o.implements_interfaces.iter().map(|c| c.name.as_str()).collect(),
        ExtendedType::Interface(i) => i.implements_interfaces.iter().map(|c| c.name.as_str()).collect(),
        _ => vec![],
    }
}

fn nullable(t: &Type) -> Type {
    match t {
        Type::NonNullNamed(n) => Type::Named(n.clone()),
        Type::NonNullList(i) => Type::List(i.clone()),
        other => other.clone(),
    }
}

/// spec 3.6 IsValidImplementationFieldType, steps 1-6
fn valid_impl_field_type(s: &Schema, field: &Type, implemented: &Type) -> bool {
    if field.is_non_null() {
        return valid_impl_field_type(s, &nullable(field), &nullable(implemented));
    }
    if let (Type::List(a), Type::List(b)) = (field, implemented) {
        return valid_impl_field_type(s, a, b);
    }
    if field == implemented {
        return true;
    }
    let (Type::Named(f), Type::Named(i)) = (field, implemented) else {
        return false;
    };
    match (s.types.get(f.as_str()), s.types.get(i.as_str())) {
        (Some(ExtendedType::Object(_)), Some(ExtendedType::Union(u))) => {
            u.members.iter().any(|m| m.name == *f)
        }
        (Some(ft @ (ExtendedType::Object(_) | ExtendedType::Interface(_))), Some(ExtendedType::Interface(_))) => {
            impls_of(ft).contains(&i.as_str())
        }
        _ => false,
    }
}

fn required(a: &InputValueDefinition) -> bool {
    a.ty.is_non_null() && a.default_value.is_none()
}

fn implements_spec(s: &Schema, t: &ExtendedType, iname: &str) -> bool {
    let Some(ExtendedType::Interface(i)) = s.types.get(iname) else {
        return false;
    };
    let declared = impls_of(t);
    if !i.implements_interfaces.iter().all(|j| declared.contains(&j.name.as_str())) {
        return false;
    }
    let tfields = fields_of(t);
    for ifd in i.fields.values() {
        let Some(f) = tfields.iter().find(|f| f.name == ifd.name) else {
            return false;
        };
        for ia in &ifd.arguments {
            match f.arguments.iter().find(|a| a.name == ia.name) {
                Some(a) if *a.ty == *ia.ty => {}
                _ => return false,
            }
        }
        for a in &f.arguments {
            if !ifd.arguments.iter().any(|ia| ia.name == a.name) && required(a) {
                return false;
            }
        }
        if !valid_impl_field_type(s, &f.ty, &ifd.ty) {
            return false;
        }
    }
    true
}

/// all interfaces reachable through `implements` from the declared ones
fn implemented_transitively<'a>(s: &'a Schema, t: &'a ExtendedType) -> BTreeSet<&'a str> {
    let mut seen: BTreeSet<&str> = BTreeSet::new();
    let mut todo: Vec<&str> = impls_of(t);
    while let Some(i) = todo.pop() {
        if seen.insert(i) {
            if let Some(it @ ExtendedType::Interface(_)) = s.types.get(i) {
                todo.extend(impls_of(it));
            }
        }
    }
    seen
}

/// three-colour depth-first search over the edges "input object a has a field of type exactly b!,
/// b an input object": true iff there is a cycle
fn has_nonnull_input_cycle(s: &Schema) -> bool {
    let mut edges: HashMap<&str, Vec<&str>> = HashMap::new();
    for (name, t) in &s.types {
        if let ExtendedType::InputObject(io) = t {
            let mut out = vec![];
            for f in io.fields.values() {
                if let Type::NonNullNamed(b) = &*f.ty {
                    if matches!(s.types.get(b.as_str()), Some(ExtendedType::InputObject(_))) {
                        out.push(b.as_str());
                    }
                }
            }
            edges.insert(name.as_str(), out);
        }
    }
    // 0 white, 1 grey, 2 black
    let mut colour: HashMap<&str, u8> = edges.keys().map(|k| (*k, 0u8)).collect();
    let names: Vec<&str> = edges.keys().copied().collect();
    for start in names {
        if colour[start] != 0 {
            continue;
        }
        let mut stack: Vec<(&str, usize)> = vec![(start, 0)];
        colour.insert(start, 1);
        while let Some((node, idx)) = stack.pop() {
            let succ = &edges[node];
            if idx < succ.len() {
                stack.push((node, idx + 1));
                let nxt = succ[idx];
                match colour[nxt] {
                    1 => return true,
                    0 => {
                        colour.insert(nxt, 1);
                        stack.push((nxt, 0));
                    }
                    _ => {}
                }
            } else {
                colour.insert(node, 2);
            }
        }
    }
    false
}

fn reserved(n: &str) -> bool {
    n.starts_with("__")
}

fn ivd_named<'a>(args: impl Iterator<Item = &'a Node<InputValueDefinition>>, out: &mut BTreeSet<String>) {
    for a in args {
        out.insert(a.ty.inner_named_type().to_string());
    }
}

/// names of the conjuncts of `Consistent` (and `scalars_exact`) that fail
pub fn consistent_impl(s: &Schema) -> Vec<&'static str> {
    let mut bad: BTreeSet<&'static str> = BTreeSet::new();
    let sd = &s.schema_definition;
    // roots
    if sd.query.is_none() {
        bad.insert("has_query");
    }
    let roots: Vec<&str> = [&sd.query, &sd.mutation, &sd.subscription]
        .into_iter()
        .flatten()
        .map(|c| c.name.as_str())
        .collect();
    for r in &roots {
        if !matches!(s.types.get(*r), Some(ExtendedType::Object(_))) {
            bad.insert("roots_object");
        }
    }
    for (k, r) in roots.iter().enumerate() {
        if roots[..k].contains(r) {
            bad.insert("roots_distinct");
        }
    }
    // references and kinds
    let input_ok = |ty: &Type| s.types.get(ty.inner_named_type().as_str()).is_some_and(is_input_kind);
    for t in s.types.values() {
        for f in fields_of(t) {
            match s.types.get(f.ty.inner_named_type().as_str()) {
                Some(ExtendedType::InputObject(_)) | None => {
                    bad.insert("field_types");
                }
                Some(_) => {}
            }
            for a in &f.arguments {
                if !input_ok(&a.ty) {
                    bad.insert("arg_types");
                }
            }
        }
        match t {
            ExtendedType::InputObject(io) => {
                for f in io.fields.values() {
                    if !input_ok(&f.ty) {
                        bad.insert("input_field_types");
                    }
                }
            }
            ExtendedType::Union(u) => {
                for m in &u.members {
                    if !matches!(s.types.get(m.name.as_str()), Some(ExtendedType::Object(_))) {
                        bad.insert("union_members");
                    }
                }
            }
            _ => {}
        }
        for i in impls_of(t) {
            if !matches!(s.types.get(i), Some(ExtendedType::Interface(_))) {
                bad.insert("implements_interfaces");
            }
        }
        // contracts of everything implemented, directly or transitively
        for i in implemented_transitively(s, t) {
            if !implements_spec(s, t, i) {
                bad.insert("contracts");
            }
        }
        // reserved names
        let bi = t.is_built_in();
        if !bi && reserved(t.name().as_str()) {
            bad.insert("no_reserved");
        }
        match t {
            ExtendedType::Object(_) | ExtendedType::Interface(_) => {
                for f in fields_of(t) {
                    if (!bi || f.origin.extension_id().is_some())
                        && (reserved(f.name.as_str()) || f.arguments.iter().any(|a| reserved(a.name.as_str())))
                    {
                        bad.insert("no_reserved");
                    }
                }
            }
            ExtendedType::Enum(e) => {
                for v in e.values.values() {
                    if (!bi || v.origin.extension_id().is_some()) && reserved(v.value.as_str()) {
                        bad.insert("no_reserved");
                    }
                }
            }
            ExtendedType::InputObject(io) => {
                for f in io.fields.values() {
                    if (!bi || f.origin.extension_id().is_some()) && reserved(f.name.as_str()) {
                        bad.insert("no_reserved");
                    }
                }
            }
            _ => {}
        }
    }
    for d in s.directive_definitions.values() {
        for a in &d.arguments {
            if !input_ok(&a.ty) {
                bad.insert("dirdef_arg_types");
            }
        }
        if !d.is_built_in() && (reserved(d.name.as_str()) || d.arguments.iter().any(|a| reserved(a.name.as_str()))) {
            bad.insert("no_reserved");
        }
    }
    if has_nonnull_input_cycle(s) {
        bad.insert("no_input_cycle");
    }
    // the type map contains exactly the built-in scalars that are referenced
    let mut referenced: BTreeSet<String> = BTreeSet::new();
    for t in s.types.values() {
        for f in fields_of(t) {
            referenced.insert(f.ty.inner_named_type().to_string());
            ivd_named(f.arguments.iter(), &mut referenced);
        }
        if let ExtendedType::InputObject(io) = t {
            ivd_named(io.fields.values().map(|c| &c.node), &mut referenced);
        }
    }
    for d in s.directive_definitions.values() {
        ivd_named(d.arguments.iter(), &mut referenced);
    }
    for b in BUILTIN_SCALARS {
        if s.types.contains_key(b) != referenced.contains(b) {
            bad.insert("scalars_exact");
        }
    }
    bad.into_iter().collect()
}

/// input: `<hex source>`; output: `R` (rejected) | `A <P..|F> <dump of the validated schema>`
fn c15_dump(line: &str) -> String {
    let src = unhex(line.split(' ').next().expect("source"));
    match Schema::parse_and_validate(src, "schema.graphql") {
        Ok(valid) => format!("A {}", crate::c14::transport(&valid)),
        Err(_) => "R".to_string(),
    }
}

/// input: `<hex source> [ignored]`; output: `rejected` | `accepted consistent=<1|0> scalars=<1|0>` and the
/// oracle (accepted but some conjunct fails = bad, naming the conjuncts)
fn c15_check(line: &str) -> String {
    let src = unhex(line.split(' ').next().expect("source"));
    match Schema::parse_and_validate(src, "schema.graphql") {
        Err(_) => "rejected".to_string(),
        Ok(valid) => {
            let bad = consistent_impl(&valid);
            let scalars = !bad.contains(&"scalars_exact");
            let consistent = bad.iter().all(|b| *b == "scalars_exact");
            let oracle = if bad.is_empty() {
                "ok".to_string()
            } else {
                format!("bad:{}", bad.join(","))
            };
            format!(
                "accepted consistent={} scalars={} oracle={}",
                consistent as u8, scalars as u8, oracle
            )
        }
    }
}

/// input: `<hex source> <type name | -> <B1,B2,.. | ->`: validate; into_inner; add the fields `zz0: B1`, `zz1: B2`, ..
/// to the object type of that name; validate again.  Every `Valid<Schema>` reached on the way (after the first
/// validation, after the second, after a third one) must be consistent.
/// output: `v=<verdicts> c=<consistent per valid stage>` and the oracle
fn c15_hist(line: &str) -> String {
    use apollo_compiler::Name;
    let f: Vec<&str> = line.split(' ').collect();
    let src = unhex(f[0]);
    let tname = f[1];
    let adds: Vec<&str> = split_nonempty(f[2], ',');
    let mut why: Vec<String> = Vec::new();
    let mut verdicts = String::new();
    let mut stage = |s: Schema, n: usize, why: &mut Vec<String>, verdicts: &mut String| -> Schema {
        match s.validate() {
            Ok(v) => {
                let bad = consistent_impl(&v);
                if !bad.is_empty() {
                    why.push(format!("stage{n}:{}", bad.join(",")));
                }
                verdicts.push('1');
                v.into_inner()
            }
            Err(e) => {
                verdicts.push('0');
                e.partial
            }
        }
    };
    let s0 = match Schema::builder().parse(src, "schema.graphql").build() {
        Ok(s) => s,
        Err(e) => e.partial,
    };
    let mut s = stage(s0, 1, &mut why, &mut verdicts);
    if let Some(ExtendedType::Object(obj)) = s.types.get_mut(tname) {
        let obj = obj.make_mut();
        for (i, b) in adds.iter().enumerate() {
            let fname = Name::new(&format!("zz{i}")).expect("name");
            let fd = FieldDefinition {
                description: None,
                name: fname.clone(),
                arguments: vec![],
                ty: Type::Named(Name::new(b).expect("name")),
                directives: Default::default(),
            };
            obj.fields.insert(fname, Component::new(fd));
        }
    }
    let s = stage(s, 2, &mut why, &mut verdicts);
    let _ = stage(s, 3, &mut why, &mut verdicts);
    let oracle = if why.is_empty() { "ok".to_string() } else { format!("bad:{}", why.join("+")) };
    format!("v={verdicts} oracle={oracle}")
}
