//! C01 / C02 / C04 / C07: the apollo-parser PARSER.  One observation of a parse is computed once
//! (`observe`) and each family prints the projection its property talks about, followed by the
//! property's own oracle evaluated on the implementation alone.
//!
//! case line (all parse families): `<entry> <tl|-> <rl> <hex source> [<items>]`
//!   entry in {doc, selset, type}; tl = token limit or `-`; rl = recursion limit.
//!   `<items>` (what the real lexer yields, printed by family `parse_lex_items`) is read by the model
//!   runner only.
use crate::util::*;
use apollo_parser::cst::CstNode;
use apollo_parser::{Lexer, Parser, SyntaxElement, SyntaxKind, SyntaxNode, TokenKind};
use std::sync::mpsc;
use std::time::Duration;

pub fn families() -> Vec<(&'static str, crate::Family)> {
    vec![
        ("parse_lex_items", lex_items),
        ("c01_parse", c01_parse),
        ("c02_parse", c02_parse),
        ("c04_parse", c04_parse),
        ("c07_parse", c07_parse),
        ("parse_struct", parse_struct),
    ]
}

/// input `<tl|-> <hex source>`: the items `Lexer::new(s).with_limit(tl)` yields:
/// `Kind.hexdata.index` or `!lex.hexdata.index` / `!limit.hexdata.index`, comma separated (`-` if none)
fn lex_items(line: &str) -> String {
    let p: Vec<&str> = line.split(' ').collect();
    let src = unhex(p[1]);
    let mut lexer = Lexer::new(&src);
    if p[0] != "-" {
        lexer = lexer.with_limit(p[0].parse().expect("tl"));
    }
    let mut out = Vec::new();
    for item in lexer {
        match item {
            Ok(t) => out.push(format!("{:?}.{}.{}", t.kind(), hex(t.data()), t.index())),
            Err(e) => out.push(format!(
                "{}.{}.{}",
                if e.is_limit() { "!limit" } else { "!lex" },
                hex(e.data()),
                e.index()
            )),
        }
    }
    if out.is_empty() {
        "-".to_string()
    } else {
        out.join(",")
    }
}

#[derive(Clone, Debug, Default)]
struct Obs {
    leaves: Vec<(String, String)>,
    root_kind: String,
    root_start: usize,
    root_end: usize,
    errors: Vec<(bool, usize)>,
    rec_high: usize,
    tok_high: usize,
    structure: String,
    text: String,
    /// C02 oracle computed while walking: ranges on char boundaries, tokens tile the text in order
    ranges_bad: Option<String>,
}

struct Case {
    entry: String,
    tl: Option<usize>,
    rl: usize,
    src: String,
}

fn parse_case(line: &str) -> Case {
    let p: Vec<&str> = line.split(' ').collect();
    Case {
        entry: p[0].to_string(),
        tl: if p[1] == "-" { None } else { Some(p[1].parse().expect("tl")) },
        rl: p[2].parse().expect("rl"),
        src: unhex(p[3]),
    }
}

fn walk(node: &SyntaxNode, src: &str, obs: &mut Obs, pos: &mut usize) {
    let r = node.text_range();
    let (s, e) = (usize::from(r.start()), usize::from(r.end()));
    if !(s <= src.len() && e <= src.len() && src.is_char_boundary(s) && src.is_char_boundary(e)) {
        obs.ranges_bad = Some(format!("node-{:?}-{}-{}-off-boundary", node.kind(), s, e));
    }
    if s != *pos {
        obs.ranges_bad = Some(format!("node-{:?}-starts-{}-expected-{}", node.kind(), s, pos));
    }
    obs.structure.push('(');
    obs.structure.push_str(&format!("{:?}", node.kind()));
    for child in node.children_with_tokens() {
        match child {
            SyntaxElement::Node(n) => {
                obs.structure.push(' ');
                walk(&n, src, obs, pos)
            }
            SyntaxElement::Token(t) => {
                let r = t.text_range();
                let (s, e) = (usize::from(r.start()), usize::from(r.end()));
                if !(s <= src.len()
                    && e <= src.len()
                    && src.is_char_boundary(s)
                    && src.is_char_boundary(e))
                {
                    obs.ranges_bad = Some(format!("token-{:?}-{}-{}-off-boundary", t.kind(), s, e));
                } else if s != *pos || &src[s..e] != t.text() {
                    obs.ranges_bad = Some(format!("token-{:?}-{}-{}-does-not-tile", t.kind(), s, e));
                }
                *pos = e;
                obs.leaves.push((format!("{:?}", t.kind()), t.text().to_string()));
                obs.structure
                    .push_str(&format!(" {:?}:{}", t.kind(), hex(t.text())));
            }
        }
    }
    if e != *pos {
        obs.ranges_bad = Some(format!("node-{:?}-ends-{}-expected-{}", node.kind(), e, pos));
    }
    obs.structure.push(')');
}

fn mk_parser<'a>(c: &'a Case) -> Parser<'a> {
    let mut p = Parser::new(&c.src).recursion_limit(c.rl);
    if let Some(tl) = c.tl {
        p = p.token_limit(tl);
    }
    p
}

/// Run the real parser through the entry and collect everything the four properties look at.
fn observe(c: &Case) -> Obs {
    let mut obs = Obs::default();
    let (root, errors, rh, th): (SyntaxNode, Vec<(bool, usize)>, usize, usize) = match c.entry.as_str() {
        "doc" => {
            let t = mk_parser(c).parse();
            (
                t.document().syntax().clone(),
                t.errors().map(|e| (e.is_limit(), e.index())).collect(),
                t.recursion_limit().high,
                t.token_limit().high,
            )
        }
        "selset" => {
            let t = mk_parser(c).parse_selection_set();
            (
                t.field_set().syntax().clone(),
                t.errors().map(|e| (e.is_limit(), e.index())).collect(),
                t.recursion_limit().high,
                t.token_limit().high,
            )
        }
        "type" => {
            let t = mk_parser(c).parse_type();
            // SyntaxTree::<Type>::ty() is part of the entry (it must not panic either)
            let _ty = t.ty();
            (
                SyntaxNode::new_root(t.green()),
                t.errors().map(|e| (e.is_limit(), e.index())).collect(),
                t.recursion_limit().high,
                t.token_limit().high,
            )
        }
        _ => panic!("entry"),
    };
    obs.errors = errors;
    obs.rec_high = rh;
    obs.tok_high = th;
    obs.root_kind = format!("{:?}", root.kind());
    let r = root.text_range();
    obs.root_start = usize::from(r.start());
    obs.root_end = usize::from(r.end());
    obs.text = root.to_string();
    let mut pos = 0usize;
    if c.src.starts_with(&obs.text) {
        walk(&root, &c.src, &mut obs, &mut pos);
    } else {
        // not a prefix of the input (a C02/C04 failure): walk against the tree's own text
        let text = obs.text.clone();
        walk(&root, &text, &mut obs, &mut pos);
    }
    obs
}

/// stack of the worker thread each case runs on (KiB; default below, override for experiments)
fn stack_bytes() -> usize {
    std::env::var("VERIF_PARSE_STACK_KIB")
        .ok()
        .and_then(|v| v.parse::<usize>().ok())
        .unwrap_or(DEFAULT_STACK_KIB)
        * 1024
}
/// Measured (release build): the parser needs 0.7-0.9 KiB of stack per nesting level, so the default
/// recursion limit of 500 needs about 450 KiB; 256 KiB overflows from depth ~250 on.  The parser runs on
/// 1 MiB (half of Rust's default thread stack), the compiler entry points on 2 MiB (that default).
const DEFAULT_STACK_KIB: usize = 1024;
const COMPILER_STACK_KIB: usize = 2048;
const WATCHDOG: Duration = Duration::from_secs(20);

enum Ran<T> {
    Done(T),
    Panicked,
    Timeout,
}

/// Run `f` on a thread with a small stack, under a watchdog; a panic is caught by the join.
fn guarded<T: Send + 'static>(f: impl FnOnce() -> T + Send + 'static) -> Ran<T> {
    guarded_on(stack_bytes(), f)
}

fn guarded_on<T: Send + 'static>(stack: usize, f: impl FnOnce() -> T + Send + 'static) -> Ran<T> {
    let (tx, rx) = mpsc::channel();
    let h = std::thread::Builder::new()
        .stack_size(stack)
        .spawn(move || {
            let r = std::panic::catch_unwind(std::panic::AssertUnwindSafe(f));
            let _ = tx.send(r.is_ok());
            r
        })
        .expect("spawn");
    match rx.recv_timeout(WATCHDOG) {
        Ok(_) => match h.join() {
            Ok(Ok(v)) => Ran::Done(v),
            _ => Ran::Panicked,
        },
        Err(mpsc::RecvTimeoutError::Timeout) => Ran::Timeout,
        Err(_) => Ran::Panicked,
    }
}

/// The recursion limit is the caller's statement of how much nesting the stack may have to carry (that is what the
/// comment at DEFAULT_RECURSION_LIMIT says it is for): a case that raises the limit above the default gets a
/// stack in proportion, 2 KiB per permitted nesting level (the default limit of 500 on the default 1 MiB).  What
/// is checked is thus a linear bound: stack use <= 2 KiB x (min(limit, nesting) + 1), whatever the input.
fn stack_for(rl: usize) -> usize {
    stack_bytes().max(rl.saturating_add(12).saturating_mul(2048).min(64 << 20))
}

fn observe_guarded(line: &str) -> Ran<Obs> {
    let line = line.to_string();
    let rl = parse_case(&line).rl;
    guarded_on(stack_for(rl), move || observe(&parse_case(&line)))
}

fn err_classes(o: &Obs) -> String {
    if o.errors.is_empty() {
        return "-".into();
    }
    o.errors
        .iter()
        .map(|(l, _)| if *l { "l" } else { "s" })
        .collect::<Vec<_>>()
        .join("")
}

fn errs_indexed(o: &Obs) -> String {
    if o.errors.is_empty() {
        return "-".into();
    }
    o.errors
        .iter()
        .map(|(l, i)| format!("{}@{}", if *l { "l" } else { "s" }, i))
        .collect::<Vec<_>>()
        .join(",")
}

const TINY_SCHEMA: &str = "type Query { a: Query b: Int c(x: Int): [Query] }";

fn tiny_schema() -> &'static apollo_compiler::validation::Valid<apollo_compiler::Schema> {
    static S: std::sync::OnceLock<apollo_compiler::validation::Valid<apollo_compiler::Schema>> =
        std::sync::OnceLock::new();
    S.get_or_init(|| {
        apollo_compiler::Schema::parse_and_validate(TINY_SCHEMA, "schema.graphql").expect("tiny schema")
    })
}

/// C01 through the compiler's entry points: each must return (Ok or Err), not unwind, not hang.
fn compiler_entries(c: &Case) -> Result<(), String> {
    use apollo_compiler::{ast, executable, ExecutableDocument, Schema};
    let src = c.src.clone();
    let (tl, rl) = (c.tl, c.rl);
    let entry = c.entry.clone();
    let r = guarded_on(COMPILER_STACK_KIB * 1024, move || {
        let conf = || {
            let mut p = apollo_compiler::parser::Parser::new().recursion_limit(rl);
            if let Some(tl) = tl {
                p = p.token_limit(tl);
            }
            p
        };
        let schema = tiny_schema();
        match entry.as_str() {
            "doc" => {
                let _ = ast::Document::parse(src.clone(), "d.graphql");
                let _ = Schema::parse(src.clone(), "s.graphql");
                let _ = ExecutableDocument::parse(schema, src.clone(), "e.graphql");
                let _ = conf().parse_ast(src.clone(), "d.graphql");
                let _ = conf().parse_schema(src.clone(), "s.graphql");
                let _ = conf().parse_executable(schema, src.clone(), "e.graphql");
            }
            "selset" => {
                let q = apollo_compiler::name!("Query");
                let _ = executable::FieldSet::parse(schema, q.clone(), src.clone(), "f.graphql");
                let _ = conf().parse_field_set(schema, q, src.clone(), "f.graphql");
            }
            _ => {
                let _ = ast::Type::parse(src.clone(), "t.graphql");
                let _ = conf().parse_type(src.clone(), "t.graphql");
            }
        }
    });
    match r {
        Ran::Done(()) => Ok(()),
        Ran::Panicked => Err("compiler-entry-panicked".into()),
        Ran::Timeout => Err("compiler-entry-timeout".into()),
    }
}

/// C01: `ok e=<error classes>` | `panic` | `timeout`
fn c01_parse(line: &str) -> String {
    let c = parse_case(line);
    match observe_guarded(line) {
        Ran::Panicked => "panic oracle=bad:parser-panicked".into(),
        Ran::Timeout => "timeout oracle=bad:parser-timeout".into(),
        Ran::Done(o) => {
            let oracle = match compiler_entries(&c) {
                Ok(()) => "ok".to_string(),
                Err(w) => format!("bad:{w}"),
            };
            format!("ok e={} oracle={}", err_classes(&o), oracle)
        }
    }
}

fn leaves_str(o: &Obs) -> String {
    if o.leaves.is_empty() {
        return "-".into();
    }
    o.leaves
        .iter()
        .map(|(k, t)| format!("{}:{}", k, hex(t)))
        .collect::<Vec<_>>()
        .join(",")
}

/// C02: `ok leaves=<kind:hex,...> range=<start>-<end>` | `panic`
fn c02_parse(line: &str) -> String {
    let c = parse_case(line);
    match observe_guarded(line) {
        Ran::Panicked => "panic".into(),
        Ran::Timeout => "timeout".into(),
        Ran::Done(o) => {
            let mut oracle = "ok".to_string();
            if c.tl.is_none() && o.text != c.src {
                oracle = "bad:tree-text-differs-from-input".into();
            } else if let Some(w) = &o.ranges_bad {
                oracle = format!("bad:{w}");
            } else if o.root_start != 0 || o.root_end != o.text.len() {
                oracle = "bad:root-range".into();
            } else if o.leaves.iter().map(|(_, t)| t.as_str()).collect::<String>() != o.text {
                oracle = "bad:leaves-do-not-concatenate-to-text".into();
            }
            format!(
                "ok leaves={} range={}-{} oracle={}",
                leaves_str(&o),
                o.root_start,
                o.root_end,
                oracle
            )
        }
    }
}

fn is_value_kind(k: SyntaxKind) -> bool {
    matches!(
        k,
        SyntaxKind::VARIABLE
            | SyntaxKind::INT_VALUE
            | SyntaxKind::FLOAT_VALUE
            | SyntaxKind::STRING_VALUE
            | SyntaxKind::BOOLEAN_VALUE
            | SyntaxKind::NULL_VALUE
            | SyntaxKind::ENUM_VALUE
            | SyntaxKind::LIST_VALUE
            | SyntaxKind::OBJECT_VALUE
    )
}

/// Nesting depth, independently of the tracker: the maximal number of enclosing SELECTION_SET,
/// LIST_TYPE, list-value item and object-field value positions.
fn nest_depth(node: &SyntaxNode, above: usize) -> usize {
    let mut here = above;
    let k = node.kind();
    if k == SyntaxKind::SELECTION_SET || k == SyntaxKind::LIST_TYPE {
        here += 1;
    }
    if is_value_kind(k) {
        if let Some(p) = node.parent() {
            if p.kind() == SyntaxKind::LIST_VALUE || p.kind() == SyntaxKind::OBJECT_FIELD {
                here += 1;
            }
        }
    }
    let mut m = here;
    for ch in node.children() {
        m = m.max(nest_depth(&ch, here));
    }
    m
}

const UNLIMITED_RL: usize = 1_000_000;

/// C04: `ok errs=<class@index,...> high=<rec>,<tok> tlen=<tree text bytes>` | `panic`
fn c04_parse(line: &str) -> String {
    let c = parse_case(line);
    let o = match observe_guarded(line) {
        Ran::Panicked => return "panic".into(),
        Ran::Timeout => return "timeout".into(),
        Ran::Done(o) => o,
    };
    let mut bad: Vec<String> = Vec::new();
    // ---- token limit clauses
    let stream_len = Lexer::new(&c.src).count();
    let n_limit_tok = {
        // a token-limit error is a limit error produced by the lexer: recognisable by position in the
        // unlimited stream is not possible from the outside, so count limit errors and tell them apart
        // by running the lexer with the same limit
        let mut n = 0;
        if let Some(tl) = c.tl {
            for it in Lexer::new(&c.src).with_limit(tl) {
                if let Err(e) = it {
                    if e.is_limit() {
                        n += 1;
                    }
                }
            }
        }
        n
    };
    if let Some(tl) = c.tl {
        // consumed at most tl items (the tracker counts the refused attempt as well)
        if o.tok_high > tl + 1 {
            bad.push("consumed-more-than-token-limit".into());
        }
        let reached = o.tok_high > tl;
        if reached && stream_len <= tl {
            bad.push("token-limit-error-but-stream-fits".into());
        }
        if c.entry == "doc" && (stream_len > tl) != reached {
            bad.push("token-limit-error-iff-stream-longer".into());
        }
        if reached && n_limit_tok == 1 && !o.errors.iter().any(|(l, _)| *l) {
            bad.push("token-limit-reached-without-limit-error".into());
        }
    } else if o.tok_high > stream_len {
        bad.push("consumed-more-than-stream".into());
    }
    if !c.src.starts_with(&o.text) {
        bad.push("tree-text-not-a-prefix".into());
    }
    if let Some(first) = o.errors.iter().position(|(l, _)| *l) {
        if first + 1 != o.errors.len() {
            bad.push("error-after-first-limit-error".into());
        }
    }
    // ---- recursion clauses, against the unlimited run
    if o.rec_high > c.rl.saturating_add(1) {
        bad.push("recursion-high-above-limit-plus-one".into());
    }
    let reference = {
        let src = c.src.clone();
        let entry = c.entry.clone();
        guarded(move || {
            observe_with_depth(&Case {
                entry,
                tl: None,
                rl: UNLIMITED_RL,
                src,
            })
        })
    };
    if let Ran::Done((ro, depth)) = reference {
        let token_limited = c.tl.map(|tl| stream_len > tl).unwrap_or(false);
        if ro.errors.is_empty() && !token_limited {
            let has_rec_limit = o.errors.iter().any(|(l, _)| *l);
            if has_rec_limit != (depth > c.rl) {
                bad.push(format!("recursion-limit-error-iff-depth-{}-exceeds-{}", depth, c.rl));
            }
            if o.rec_high != depth.min(c.rl.saturating_add(1)) {
                bad.push(format!("recursion-high-{}-expected-min-{}-{}", o.rec_high, depth, c.rl + 1));
            }
        }
    }
    // ---- the compiler's reached figures
    {
        let (src, tl, rl, entry) = (c.src.clone(), c.tl, c.rl, c.entry.clone());
        let r = guarded_on(COMPILER_STACK_KIB * 1024, move || {
            let mut p = apollo_compiler::parser::Parser::new().recursion_limit(rl);
            if let Some(tl) = tl {
                p = p.token_limit(tl);
            }
            match entry.as_str() {
                "doc" => {
                    let _ = p.parse_ast(src, "d.graphql");
                }
                "selset" => {
                    let _ = p.parse_field_set(tiny_schema(), apollo_compiler::name!("Query"), src, "f.graphql");
                }
                _ => {
                    let _ = p.parse_type(src, "t.graphql");
                }
            }
            (p.recursion_reached(), p.tokens_reached())
        });
        match r {
            Ran::Done((rr, tr)) => {
                if rr != o.rec_high || tr != o.tok_high {
                    bad.push(format!("compiler-reached-{}-{}-parser-high-{}-{}", rr, tr, o.rec_high, o.tok_high));
                }
            }
            // a panic of the compiler layer is C01's business (and known there), not C04's
            _ => {}
        }
    }
    let oracle = if bad.is_empty() {
        "ok".to_string()
    } else {
        format!("bad:{}", bad.join("+"))
    };
    format!(
        "ok errs={} high={},{} tlen={} oracle={}",
        errs_indexed(&o),
        o.rec_high,
        o.tok_high,
        o.text.len(),
        oracle
    )
}

fn observe_with_depth(c: &Case) -> (Obs, usize) {
    // depth needs the tree itself: parse again (cheap) to walk nodes
    let o = observe(c);
    let root: SyntaxNode = match c.entry.as_str() {
        "doc" => mk_parser(c).parse().document().syntax().clone(),
        "selset" => mk_parser(c).parse_selection_set().field_set().syntax().clone(),
        _ => SyntaxNode::new_root(mk_parser(c).parse_type().green()),
    };
    let d = nest_depth(&root, 0);
    (o, d)
}

fn significant(src: &str) -> Vec<(TokenKind, String)> {
    let mut v = Vec::new();
    for it in Lexer::new(src) {
        match it {
            Ok(t) => match t.kind() {
                TokenKind::Whitespace | TokenKind::Comment | TokenKind::Comma | TokenKind::Eof => {}
                k => v.push((k, t.data().to_string())),
            },
            Err(e) => v.push((TokenKind::Eof, format!("!{}", e.data()))),
        }
    }
    v
}

/// C07: `ok noerr sig=<hex of the significant leaf texts joined by spaces>` | `ok err` | `panic`
fn c07_parse(line: &str) -> String {
    let c = parse_case(line);
    let o = match observe_guarded(line) {
        Ran::Panicked => return "panic".into(),
        Ran::Timeout => return "timeout".into(),
        Ran::Done(o) => o,
    };
    if !o.errors.is_empty() {
        return "ok err oracle=ok".into();
    }
    let sig: Vec<&str> = o
        .leaves
        .iter()
        .filter(|(k, _)| !matches!(k.as_str(), "WHITESPACE" | "COMMENT" | "COMMA"))
        .map(|(_, t)| t.as_str())
        .collect();
    let mut oracle = "ok".to_string();
    let input_sig = significant(&c.src);
    match c.entry.as_str() {
        "type" => {
            // re-print the returned type and compare token-wise with the input's significant tokens
            let src = c.src.clone();
            let r = guarded_on(COMPILER_STACK_KIB * 1024, move || {
                apollo_compiler::ast::Type::parse(src, "t.graphql").map(|t| t.to_string())
            });
            match r {
                Ran::Done(Ok(printed)) => {
                    if significant(&printed) != input_sig {
                        oracle = format!("bad:type-{}-is-not-the-whole-input", hex(&printed));
                    }
                }
                Ran::Done(Err(_)) => oracle = "bad:parser-no-error-but-compiler-error".into(),
                _ => oracle = "bad:compiler-type-parse-panicked".into(),
            }
        }
        "selset" => {
            // the same tokens, braced, must be exactly one anonymous operation for the document parser
            let braced = input_sig.first().map(|(k, _)| *k == TokenKind::LCurly).unwrap_or(false);
            let wrapped = if braced { c.src.clone() } else { format!("{{{}\n}}", c.src) };
            let r = guarded(move || {
                let t = Parser::new(&wrapped).parse();
                let n_err = t.errors().count();
                let defs: Vec<_> = t.document().definitions().collect();
                let one_anonymous = defs.len() == 1
                    && matches!(&defs[0], apollo_parser::cst::Definition::OperationDefinition(op)
                        if op.operation_type().is_none() && op.name().is_none()
                            && op.variable_definitions().is_none() && op.directives().is_none());
                (n_err, one_anonymous)
            });
            match r {
                Ran::Done((0, true)) => {}
                Ran::Done(_) => oracle = "bad:input-is-not-exactly-one-selection-set".into(),
                _ => oracle = "bad:reference-parse-panicked".into(),
            }
        }
        _ => {}
    }
    format!("ok noerr sig={} oracle={}", hex(&sig.join(" ")), oracle)
}

/// informational: the full node structure
fn parse_struct(line: &str) -> String {
    match observe_guarded(line) {
        Ran::Panicked => "panic".into(),
        Ran::Timeout => "timeout".into(),
        Ran::Done(o) => format!("ok {}", o.structure),
    }
}
