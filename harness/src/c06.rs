//! C06: string literals decode to their spec-defined values.
//! Family `str_decode`: hex of a literal (token text with quotes) ->
//!   `invalid`                      the real lexer does not lex it as exactly one error-free StringValue token
//!   `ok <hex value> oracle=...`    value = String::from(&cst::StringValue) found in `{ f(a: <literal>) }`;
//!                                  oracle: apollo-compiler stores the same value as argument value, variable
//!                                  default, input-field default, and as description of every describable
//!                                  definition.
use crate::util::*;
use apollo_compiler::ast;
use apollo_parser::cst;
use apollo_parser::cst::CstNode;

pub fn families() -> Vec<(&'static str, crate::Family)> {
    vec![("str_decode", str_decode)]
}

/// Is `lit` exactly one StringValue token for the real lexer, without any lexical error?
pub fn lexes_as_one_string(lit: &str) -> bool {
    let (tokens, errors) = apollo_parser::Lexer::new(lit).lex();
    errors.is_empty()
        && tokens.len() == 2
        && tokens[0].kind() == apollo_parser::TokenKind::StringValue
        && tokens[0].data() == lit
        && tokens[1].kind() == apollo_parser::TokenKind::Eof
}

/// The value at CST level.
pub fn cst_value(lit: &str) -> Result<String, String> {
    let src = format!("{{ f(a: {lit}) }}");
    let tree = apollo_parser::Parser::new(&src).parse();
    if tree.errors().len() != 0 {
        return Err("cst-parse-error".into());
    }
    let mut found: Vec<cst::StringValue> = tree
        .document()
        .syntax()
        .descendants()
        .filter_map(cst::StringValue::cast)
        .collect();
    if found.len() != 1 {
        return Err(format!("cst-string-nodes-{}", found.len()));
    }
    let sv = found.pop().unwrap();
    // both conversions
    let by_ref = String::from(&sv);
    let by_val = String::from(sv);
    if by_ref != by_val {
        return Err("from-ref-and-from-value-differ".into());
    }
    Ok(by_ref)
}

/// Every string value and description of an AST document, labelled by position, in document order.
pub fn collect_strings(doc: &ast::Document) -> Vec<(String, String)> {
    let mut out = Vec::new();
    fn value(out: &mut Vec<(String, String)>, label: &str, v: &ast::Value) {
        match v {
            ast::Value::String(s) => out.push((label.to_string(), s.clone())),
            ast::Value::List(items) => {
                for i in items {
                    value(out, label, i)
                }
            }
            ast::Value::Object(fields) => {
                for (_, i) in fields {
                    value(out, label, i)
                }
            }
            _ => {}
        }
    }
    fn desc(out: &mut Vec<(String, String)>, label: &str, d: &Option<apollo_compiler::Node<str>>) {
        if let Some(d) = d {
            out.push((label.to_string(), d.to_string()))
        }
    }
    fn directives(out: &mut Vec<(String, String)>, ds: &ast::DirectiveList) {
        for d in ds.iter() {
            for a in &d.arguments {
                value(out, "directive-arg", &a.value)
            }
        }
    }
    fn input_values(out: &mut Vec<(String, String)>, what: &str, ivs: &[apollo_compiler::Node<ast::InputValueDefinition>]) {
        for iv in ivs {
            desc(out, &format!("desc-{what}"), &iv.description);
            if let Some(v) = &iv.default_value {
                value(out, &format!("default-{what}"), v)
            }
            directives(out, &iv.directives);
        }
    }
    fn fields(out: &mut Vec<(String, String)>, fs: &[apollo_compiler::Node<ast::FieldDefinition>]) {
        for f in fs {
            desc(out, "desc-field", &f.description);
            input_values(out, "argument", &f.arguments);
            directives(out, &f.directives);
        }
    }
    fn selections(out: &mut Vec<(String, String)>, sels: &[ast::Selection]) {
        for s in sels {
            match s {
                ast::Selection::Field(f) => {
                    for a in &f.arguments {
                        value(out, "argument-value", &a.value)
                    }
                    directives(out, &f.directives);
                    selections(out, &f.selection_set);
                }
                ast::Selection::FragmentSpread(f) => directives(out, &f.directives),
                ast::Selection::InlineFragment(f) => {
                    directives(out, &f.directives);
                    selections(out, &f.selection_set)
                }
            }
        }
    }
    for def in &doc.definitions {
        match def {
            ast::Definition::OperationDefinition(op) => {
                for v in &op.variables {
                    if let Some(d) = &v.default_value {
                        value(&mut out, "variable-default", d)
                    }
                    directives(&mut out, &v.directives);
                }
                directives(&mut out, &op.directives);
                selections(&mut out, &op.selection_set);
            }
            ast::Definition::FragmentDefinition(f) => {
                directives(&mut out, &f.directives);
                selections(&mut out, &f.selection_set)
            }
            ast::Definition::DirectiveDefinition(d) => {
                desc(&mut out, "desc-directive", &d.description);
                input_values(&mut out, "directive-argument", &d.arguments);
            }
            ast::Definition::SchemaDefinition(d) => {
                desc(&mut out, "desc-schema", &d.description);
                directives(&mut out, &d.directives);
            }
            ast::Definition::ScalarTypeDefinition(d) => {
                desc(&mut out, "desc-scalar", &d.description);
                directives(&mut out, &d.directives);
            }
            ast::Definition::ObjectTypeDefinition(d) => {
                desc(&mut out, "desc-type", &d.description);
                directives(&mut out, &d.directives);
                fields(&mut out, &d.fields);
            }
            ast::Definition::InterfaceTypeDefinition(d) => {
                desc(&mut out, "desc-interface", &d.description);
                directives(&mut out, &d.directives);
                fields(&mut out, &d.fields);
            }
            ast::Definition::UnionTypeDefinition(d) => {
                desc(&mut out, "desc-union", &d.description);
                directives(&mut out, &d.directives);
            }
            ast::Definition::EnumTypeDefinition(d) => {
                desc(&mut out, "desc-enum", &d.description);
                directives(&mut out, &d.directives);
                for v in &d.values {
                    desc(&mut out, "desc-enum-value", &v.description);
                    directives(&mut out, &v.directives);
                }
            }
            ast::Definition::InputObjectTypeDefinition(d) => {
                desc(&mut out, "desc-input", &d.description);
                directives(&mut out, &d.directives);
                input_values(&mut out, "input-field", &d.fields);
            }
            _ => {}
        }
    }
    out
}

/// Every place the compiler stores a string: (label, source text with the literal in that place).
fn compiler_documents(lit: &str) -> Vec<(&'static str, String, usize)> {
    vec![
        ("argument-value", format!("{{ f(a: {lit}) }}"), 1),
        ("argument-in-list", format!("{{ f(a: [{lit}, {{k: {lit}}}]) @d(x: {lit}) }}"), 3),
        ("variable-default", format!("query($v: String = {lit}) {{ f }}"), 1),
        ("input-field-default", format!("input I {{ a: String = {lit} }}"), 1),
        (
            "descriptions",
            format!(
                "{lit}\ntype T {{\n  {lit}\n  f(\n    {lit}\n    a: Int = 1\n  ): Int\n}}\n{lit} interface J {{ {lit} g: Int }}\n\
                 {lit} enum E {{ {lit} V }}\n{lit} input I {{ {lit} a: Int }}\n{lit} scalar S\n{lit} union U = T\n\
                 {lit} directive @d({lit} x: Int) on FIELD\n{lit} schema {{ query: T }}\n"
            ),
            14,
        ),
        // the literal directly followed by the next token, and preceded by one
        ("tight", format!("{lit}type T{{{lit}f(a:String={lit}@d(x:{lit})):Int}}"), 4),
    ]
}

fn str_decode(line: &str) -> String {
    let lit = unhex(line);
    if !lexes_as_one_string(&lit) {
        return "invalid".to_string();
    }
    let v = match cst_value(&lit) {
        Ok(v) => v,
        Err(e) => return format!("ok - oracle=bad:{e}"),
    };
    let mut oracle = "ok".to_string();
    'outer: for (label, src, expect) in compiler_documents(&lit) {
        match ast::Document::parse(src, "c06.graphql") {
            Err(_) => {
                oracle = format!("bad:parse-error-in-{label}");
                break;
            }
            Ok(doc) => {
                let found = collect_strings(&doc);
                if found.len() != expect {
                    oracle = format!("bad:{label}-found-{}-strings", found.len());
                    break;
                }
                for (place, s) in found {
                    if s != v {
                        oracle = format!("bad:{label}/{place}-differs-from-cst-value:{}", hex(&s));
                        break 'outer;
                    }
                }
            }
        }
    }
    format!("ok {} oracle={oracle}", hex(&v))
}
