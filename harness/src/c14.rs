//! C14: schema validation verdicts.  `c14_dump` gives the schema as the real builder built it (the
//! model's input); `c14_validate` gives the observation: `Schema::parse_and_validate(..).is_ok()`.
use crate::util::*;
use apollo_compiler::validation::DiagnosticList;
use apollo_compiler::Schema;

pub fn families() -> Vec<(&'static str, crate::Family)> {
    vec![
        ("c14_dump", c14_dump),
        ("c14_validate", c14_validate),
        ("c14_validate_params", c14_validate_params),
    ]
}

/// kinds (never messages) of the diagnostics, sorted and de-duplicated; diagnostics without a
/// validation kind are `?syntax`, `?limit` or `?build`
pub fn kinds(errors: &DiagnosticList) -> Vec<String> {
    let mut v: Vec<String> = errors
        .iter()
        .map(|d| match d.error.unstable_error_name() {
            Some(n) => n.to_string(),
            None => {
                let m = d.error.to_string();
                if m.starts_with("syntax error") {
                    "?syntax".to_string()
                } else if m.contains("limit") {
                    "?limit".to_string()
                } else {
                    "?build".to_string()
                }
            }
        })
        .collect();
    v.sort();
    v.dedup();
    v
}

/// input: `<hex source>`; output: `<number of parse and build errors> <their classes or -> <schema dump, built-ins included>`
fn c14_dump(line: &str) -> String {
    let src = unhex(line.split(' ').next().expect("source"));
    match Schema::parse(src, "schema.graphql") {
        Ok(sch) => format!("0 - {}", crate::schemadump::schema(&sch, true)),
        Err(e) => format!(
            "{} {} {}",
            e.errors.len(),
            kinds(&e.errors).join(","),
            crate::schemadump::schema(&e.partial, true)
        ),
    }
}

/// input: `<hex source> [ignored fields]`; output: `valid` | `invalid kinds=<diagnostic kinds>`
fn c14_validate(line: &str) -> String {
    let src = unhex(line.split(' ').next().expect("source"));
    match Schema::parse_and_validate(src, "schema.graphql") {
        Ok(_) => "valid".to_string(),
        Err(e) => format!("invalid kinds={}", kinds(&e.errors).join(",")),
    }
}

/// input: `<flags> <hex source> ...` (the flags concern the model only)
fn c14_validate_params(line: &str) -> String {
    c14_validate(line.split_once(' ').expect("flags").1)
}
