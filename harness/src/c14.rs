//! C14: schema validation verdicts.  `c14_dump` gives the schema as the real builder built it (the
//! model's input); `c14_validate` gives the observation: `Schema::parse_and_validate(..).is_ok()`.
use crate::util::*;
use apollo_compiler::validation::DiagnosticList;
use apollo_compiler::Schema;

pub fn families() -> Vec<(&'static str, crate::Family)> {
    vec![
        ("c14_dump", c14_dump),
        ("c14_builtins", c14_builtins),
        ("c14_validate", c14_validate),
        ("c14_validate_params", c14_validate_params),
        ("c14_cycles", c14_cycles),
    ]
}

/// kinds (never messages) of the diagnostics, sorted and de-duplicated; diagnostics without a
/// validation kind are `?syntax`, `?limit` or `?build`
pub fn kinds(errors: &DiagnosticList) -> Vec<String> {
    let mut v: Vec<String> = errors
        .iter()
        .map(|d| match d.error.unstable_error_name() {
            Some(n) => n.to_string(),
            None => {
                let m = d.error.to_string();
                if m.starts_with("syntax error") {
                    "?syntax".to_string()
                } else if m.contains("limit") {
                    "?limit".to_string()
                } else {
                    "?build".to_string()
                }
            }
        })
        .collect();
    v.sort();
    v.dedup();
    v
}

fn pristine() -> &'static Schema {
    static P: std::sync::OnceLock<Schema> = std::sync::OnceLock::new();
    P.get_or_init(Schema::new)
}

/// The built-in definitions of `sch` are those of `Schema::new()`, in the same order and before every other
/// definition, except that some built-in types may be absent (validation prunes unused built-in scalars).
/// Returns the names of the absent ones.
fn builtins_pristine(sch: &Schema) -> Option<Vec<String>> {
    let p = pristine();
    let nd = p.directive_definitions.len();
    let dirs_ok = sch.directive_definitions.len() >= nd
        && sch
            .directive_definitions
            .values()
            .zip(p.directive_definitions.values())
            .all(|(a, b)| a.is_built_in() && a == b)
        && sch.directive_definitions.values().skip(nd).all(|d| !d.is_built_in());
    if !dirs_ok {
        return None;
    }
    let mut removed = vec![];
    let mut it = sch.types.values().peekable();
    for b in p.types.values() {
        match it.peek() {
            Some(a) if a.is_built_in() && *a == b => {
                it.next();
            }
            _ => removed.push(b.name().to_string()),
        }
    }
    if it.any(|t| t.is_built_in()) {
        return None;
    }
    Some(removed)
}

/// `P <dump of the user's definitions>` when the built-in part is pristine (the reader adds it back),
/// `P-Name1-Name2 <dump>` when it is pristine except for those absent built-in types, else `F <full dump>`
pub fn transport(sch: &Schema) -> String {
    match builtins_pristine(sch) {
        Some(removed) => {
            let mark = removed.iter().fold("P".to_string(), |m, n| m + "-" + n);
            format!("{mark} {}", crate::schemadump::schema(sch, false))
        }
        None => format!("F {}", crate::schemadump::schema(sch, true)),
    }
}

/// output: the dump of `Schema::new()` (built-in directives, scalars, introspection types)
fn c14_builtins(_line: &str) -> String {
    crate::schemadump::schema(pristine(), true)
}

/// input: `<hex source>`; output: `<number of parse and build errors> <their classes or -> <P|F> <schema dump>`
fn c14_dump(line: &str) -> String {
    let src = unhex(line.split(' ').next().expect("source"));
    match Schema::parse(src, "schema.graphql") {
        Ok(sch) => format!("0 - {}", transport(&sch)),
        Err(e) => format!(
            "{} {} {}",
            e.errors.len(),
            kinds(&e.errors).join(","),
            transport(&e.partial)
        ),
    }
}

/// input: `<hex source> [ignored fields]`; output: `valid` | `invalid kinds=<diagnostic kinds>`
fn c14_validate(line: &str) -> String {
    let src = unhex(line.split(' ').next().expect("source"));
    match Schema::parse_and_validate(src, "schema.graphql") {
        Ok(_) => "valid".to_string(),
        Err(e) => format!("invalid kinds={}", kinds(&e.errors).join(",")),
    }
}

/// input: `<flags> <hex source> ...` (the flags concern the model only)
fn c14_validate_params(line: &str) -> String {
    c14_validate(line.split_once(' ').expect("flags").1)
}

/// input: `<hex source> ...`; output: which of the cycle diagnostics validation reports:
/// `ri=` RecursiveInputObjectDefinition, `rd=` RecursiveDirectiveDefinition, `deep=` DeeplyNestedType
fn c14_cycles(line: &str) -> String {
    let src = unhex(line.split(' ').next().expect("source"));
    let k = match Schema::parse_and_validate(src, "schema.graphql") {
        Ok(_) => vec![],
        Err(e) => kinds(&e.errors),
    };
    let b = |n: &str| if k.iter().any(|x| x == n) { "1" } else { "0" };
    format!(
        "ri={} rd={} deep={}",
        b("RecursiveInputObjectDefinition"),
        b("RecursiveDirectiveDefinition"),
        b("DeeplyNestedType")
    )
}
