//! C33: apollo-smith `ResponseBuilder` — generated responses match the operation's shape.
//!
//! `smith_prepare`  : `<schema-src-hex> <doc-src-hex>` -> `ok <schema-dump> <ast-dump>` | `invalid <why>`
//!                    (both validated with the real compiler; the dumps feed the model: two-stage tie)
//! `smith_response` : `<null> <min> <max> <streams> <opname> <schema-src-hex> <doc-src-hex> <schema-dump> <ast-dump>`
//!                    -> one result per stream joined by `;` : `ok:<json>` | `exhausted` | `emptychoose` | `panic`,
//!                    then ` oracle=ok` | ` oracle=bad:<stream index>:<why>`.
//! `smith_class`    : `<opname> <schema-src-hex> <doc-src-hex> <schema-dump> <ast-dump>` -> `cov=<0|1> typed=1` : the known-finding class
//!                    (a selected field whose definition on an implementing object type differs from the
//!                    definition on the interface it is selected under), evaluated on the real data structures.
//! The randomness source is a replay of the case's choice stream (`Replay`), consumed exactly as the model's
//! provider (coq/theories/Smith/Response.v) says.  The oracle is the property evaluated on the implementation
//! alone: an independent shape checker over the real `Schema`/`ExecutableDocument` (spec `CollectFields` for the
//! concrete object type, field definitions of the *concrete* type), and execution of the operation with
//! apollo-compiler's resolver API serving the generated data, which must reproduce it without errors.
use crate::util::*;
use apollo_compiler::executable::{Field, Selection};
use apollo_compiler::resolvers::{Execution, FieldError, ObjectValue, ResolveInfo, ResolvedValue};
use apollo_compiler::response::JsonValue;
use apollo_compiler::schema::{ExtendedType, Type};
use apollo_compiler::validation::Valid;
use apollo_compiler::{ExecutableDocument, Name, Schema};
use apollo_smith::{RandomProvider, ResponseBuilder, ResponseError};

pub fn families() -> Vec<(&'static str, crate::Family)> {
    vec![
        ("smith_prepare", smith_prepare),
        ("smith_response", smith_response),
        ("smith_class", smith_class),
    ]
}

// ---------------------------------------------------------------- replaying RandomProvider

pub struct Replay {
    stream: Vec<u64>,
    pos: usize,
}

const ALNUM: &[u8; 62] = b"ABCDEFGHIJKLMNOPQRSTUVWXYZabcdefghijklmnopqrstuvwxyz0123456789";

impl Replay {
    fn next(&mut self) -> Result<u64, ResponseError> {
        match self.stream.get(self.pos) {
            Some(c) => {
                self.pos += 1;
                Ok(*c)
            }
            None => Err(ResponseError::Exhausted),
        }
    }
}

impl RandomProvider for Replay {
    fn gen_bool(&mut self) -> Result<bool, ResponseError> {
        Ok(self.next()? % 2 == 1)
    }
    fn gen_i32_range(&mut self, min: i32, max: i32) -> Result<i32, ResponseError> {
        assert!(min <= max, "empty range");
        let span = (max as i64 - min as i64 + 1) as u64;
        Ok((min as i64 + (self.next()? % span) as i64) as i32)
    }
    fn gen_usize_range(&mut self, min: usize, max: usize) -> Result<usize, ResponseError> {
        assert!(min <= max, "empty range");
        let span = (max - min) as u64 + 1;
        Ok(min + (self.next()? % span) as usize)
    }
    fn gen_f64_range(&mut self, min: f64, max: f64) -> Result<f64, ResponseError> {
        Ok(min + (self.next()? % 3) as f64 * (max - min) / 2.0)
    }
    fn gen_alphanumeric_char(&mut self) -> Result<char, ResponseError> {
        Ok(ALNUM[(self.next()? % 62) as usize] as char)
    }
    fn choose_index(&mut self, len: usize) -> Result<usize, ResponseError> {
        if len == 0 {
            return Err(ResponseError::EmptyChoose);
        }
        Ok((self.next()? % len as u64) as usize)
    }
    fn ratio(&mut self, numerator: u32, denominator: u32) -> Result<bool, ResponseError> {
        assert!(denominator != 0, "zero denominator");
        Ok(self.next()? % (denominator as u64) < numerator as u64)
    }
}

// ---------------------------------------------------------------- canonical JSON text

pub fn show_json(v: &JsonValue, out: &mut String) {
    match v {
        JsonValue::Null => out.push_str("null"),
        JsonValue::Bool(b) => out.push_str(if *b { "true" } else { "false" }),
        JsonValue::Number(n) => {
            if let Some(i) = n.as_i64() {
                out.push_str(&i.to_string())
            } else {
                let f = n.as_f64().unwrap_or(f64::NAN);
                out.push_str(&format!("F{}", (f * 2.0).round() as i64))
            }
        }
        JsonValue::String(s) => {
            out.push('"');
            out.push_str(s.as_str());
            out.push('"');
        }
        JsonValue::Array(l) => {
            out.push('[');
            for (i, x) in l.iter().enumerate() {
                if i > 0 {
                    out.push(',');
                }
                show_json(x, out);
            }
            out.push(']');
        }
        JsonValue::Object(m) => {
            out.push('{');
            for (i, (k, x)) in m.iter().enumerate() {
                if i > 0 {
                    out.push(',');
                }
                out.push('"');
                out.push_str(k.as_str());
                out.push_str("\":");
                show_json(x, out);
            }
            out.push('}');
        }
    }
}

// ---------------------------------------------------------------- the shape oracle

/// The generated data annotated with the concrete object type the checker found for every object.
enum Ann {
    Null,
    Leaf(JsonValue),
    List(Vec<Ann>),
    Obj { ty: String, fields: Vec<(String, Ann)> },
}

struct Shape<'a> {
    schema: &'a Valid<Schema>,
    doc: &'a Valid<ExecutableDocument>,
}

impl<'a> Shape<'a> {
    /// GetPossibleTypes restricted to object types
    fn possible_types(&self, ty: &Name) -> Vec<Name> {
        match self.schema.types.get(ty) {
            Some(ExtendedType::Object(_)) => vec![ty.clone()],
            Some(ExtendedType::Union(u)) => u.members.iter().map(|m| m.name.clone()).collect(),
            Some(ExtendedType::Interface(_)) => self
                .schema
                .types
                .iter()
                .filter_map(|(n, t)| match t {
                    ExtendedType::Object(o) if o.implements_interfaces.iter().any(|i| i.name == *ty) => {
                        Some(n.clone())
                    }
                    _ => None,
                })
                .collect(),
            _ => vec![],
        }
    }

    /// DoesFragmentTypeApply(objectType, fragmentType)
    fn applies(&self, object: &Name, cond: &Name) -> bool {
        match self.schema.types.get(cond) {
            Some(ExtendedType::Object(_)) => object == cond,
            Some(ExtendedType::Interface(_)) => match self.schema.types.get(object) {
                Some(ExtendedType::Object(o)) => o.implements_interfaces.iter().any(|i| i.name == *cond),
                _ => false,
            },
            Some(ExtendedType::Union(u)) => u.members.iter().any(|m| m.name == *object),
            _ => false,
        }
    }

    /// CollectFields(objectType, selectionSet, visitedFragments) of the specification (no @skip/@include)
    fn collect(
        &self,
        object: &Name,
        sels: &[&'a Selection],
        visited: &mut Vec<Name>,
        out: &mut Vec<(Name, Vec<&'a Field>)>,
    ) {
        for sel in sels {
            match sel {
                Selection::Field(f) => {
                    let key = f.response_key().clone();
                    match out.iter_mut().find(|(k, _)| *k == key) {
                        Some((_, v)) => v.push(f),
                        None => out.push((key, vec![f])),
                    }
                }
                Selection::FragmentSpread(sp) => {
                    if visited.contains(&sp.fragment_name) {
                        continue;
                    }
                    visited.push(sp.fragment_name.clone());
                    let Some(def) = self.doc.fragments.get(&sp.fragment_name) else { continue };
                    if self.applies(object, def.type_condition()) {
                        let inner: Vec<&Selection> = def.selection_set.selections.iter().collect();
                        self.collect(object, &inner, visited, out);
                    }
                }
                Selection::InlineFragment(inl) => {
                    if let Some(c) = &inl.type_condition {
                        if !self.applies(object, c) {
                            continue;
                        }
                    }
                    let inner: Vec<&Selection> = inl.selection_set.selections.iter().collect();
                    self.collect(object, &inner, visited, out);
                }
            }
        }
    }

    fn check_obj(&self, parent: &Name, sels: &[&'a Selection], v: &JsonValue) -> Result<Ann, String> {
        let JsonValue::Object(map) = v else {
            return Err(format!("expected an object for type {parent}"));
        };
        let candidates = self.possible_types(parent);
        if candidates.is_empty() {
            return Err(format!("type {parent} has no possible object type"));
        }
        let mut last = String::new();
        'cand: for t in candidates {
            let mut groups = Vec::new();
            self.collect(&t, sels, &mut Vec::new(), &mut groups);
            let want: Vec<&str> = groups.iter().map(|(k, _)| k.as_str()).collect();
            let have: Vec<&str> = map.keys().map(|k| k.as_str()).collect();
            if want != have {
                last = format!("keys {have:?} are not the response keys {want:?} of {t}");
                continue;
            }
            let mut fields = Vec::new();
            for (key, fs) in &groups {
                let val = map.get(key.as_str()).expect("key");
                let name = &fs[0].name;
                if fs.iter().any(|f| f.name != *name) {
                    last = format!("fields of key {key} do not merge");
                    continue 'cand;
                }
                if name == "__typename" {
                    if *val != JsonValue::String(t.as_str().into()) {
                        last = format!("__typename is not {t}");
                        continue 'cand;
                    }
                    fields.push((key.to_string(), Ann::Leaf(val.clone())));
                    continue;
                }
                // the definition on the CONCRETE type
                let Ok(def) = self.schema.type_field(&t, name) else {
                    last = format!("{t} has no field {name}");
                    continue 'cand;
                };
                let merged: Vec<&Selection> =
                    fs.iter().flat_map(|f| f.selection_set.selections.iter()).collect();
                match self.check_value(&def.ty, &merged, val) {
                    Ok(a) => fields.push((key.to_string(), a)),
                    Err(e) => {
                        last = format!("{t}.{name}:{e}");
                        continue 'cand;
                    }
                }
            }
            return Ok(Ann::Obj { ty: t.to_string(), fields });
        }
        Err(last)
    }

    fn check_value(&self, ty: &Type, sels: &[&'a Selection], v: &JsonValue) -> Result<Ann, String> {
        if v.is_null() {
            return if ty.is_non_null() {
                Err(format!("null at non-null type {ty}"))
            } else {
                Ok(Ann::Null)
            };
        }
        match ty {
            Type::List(item) | Type::NonNullList(item) => {
                let JsonValue::Array(items) = v else {
                    return Err(format!("expected a list for type {ty}"));
                };
                let mut out = Vec::new();
                for x in items {
                    out.push(self.check_value(item, sels, x)?);
                }
                Ok(Ann::List(out))
            }
            Type::Named(n) | Type::NonNullNamed(n) => match self.schema.types.get(n) {
                Some(ExtendedType::Scalar(_)) => {
                    let ok = match n.as_str() {
                        "Int" => v.as_i64().is_some_and(|i| i32::try_from(i).is_ok()),
                        "Float" => v.is_number(),
                        "String" => v.is_string(),
                        "Boolean" => v.is_boolean(),
                        "ID" => v.is_string(),
                        _ => true,
                    };
                    if ok {
                        Ok(Ann::Leaf(v.clone()))
                    } else {
                        Err(format!("wrong JSON kind for scalar {n}"))
                    }
                }
                Some(ExtendedType::Enum(e)) => match v.as_str() {
                    Some(s) if e.values.keys().any(|k| k.as_str() == s) => Ok(Ann::Leaf(v.clone())),
                    _ => Err(format!("not a value of enum {n}")),
                },
                Some(ExtendedType::Object(_))
                | Some(ExtendedType::Interface(_))
                | Some(ExtendedType::Union(_)) => self.check_obj(n, sels, v),
                _ => Err(format!("type {n} is not an output type")),
            },
        }
    }
}

// ---------------------------------------------------------------- serving the data back

struct Served<'a> {
    ty: &'a str,
    fields: &'a [(String, Ann)],
}

fn resolved(a: &Ann) -> ResolvedValue<'_> {
    match a {
        Ann::Null => ResolvedValue::null(),
        Ann::Leaf(v) => ResolvedValue::leaf(v.clone()),
        Ann::List(items) => ResolvedValue::list(items.iter().map(resolved)),
        Ann::Obj { ty, fields } => ResolvedValue::object(Served { ty, fields }),
    }
}

impl ObjectValue for Served<'_> {
    fn type_name(&self) -> &str {
        self.ty
    }
    fn resolve_field<'a>(&'a self, info: &'a ResolveInfo<'a>) -> Result<ResolvedValue<'a>, FieldError> {
        let key = info.field_selections()[0].response_key().as_str();
        match self.fields.iter().find(|(k, _)| k == key) {
            Some((_, a)) => Ok(resolved(a)),
            None => Err(self.unknown_field_error(info)),
        }
    }
}

fn oracle(
    schema: &Valid<Schema>,
    doc: &Valid<ExecutableDocument>,
    opname: Option<&str>,
    data: &JsonValue,
) -> Result<(), String> {
    let Ok(op) = doc.operations.get(opname) else {
        return if data.is_null() { Ok(()) } else { Err("no operation but data".into()) };
    };
    let shape = Shape { schema, doc };
    let sels: Vec<&Selection> = op.selection_set.selections.iter().collect();
    let ann = shape
        .check_obj(&op.selection_set.ty, &sels, data)
        .map_err(|e| format!("shape:{e}"))?;
    let Ann::Obj { ty, fields } = &ann else { unreachable!() };
    let root = Served { ty, fields };
    let resp = Execution::new(schema, doc)
        .operation(op)
        .execute_sync(&root)
        .map_err(|e| format!("replay:request-error:{}", e.message()))?;
    if !resp.errors.is_empty() {
        return Err(format!("replay:errors:{}", resp.errors[0].message));
    }
    let Some(map) = resp.data else { return Err("replay:data-null".into()) };
    let (mut a, mut b) = (String::new(), String::new());
    show_json(&JsonValue::Object(map), &mut a);
    show_json(data, &mut b);
    if a != b {
        return Err(format!("replay:differs:{a}"));
    }
    Ok(())
}

// ---------------------------------------------------------------- families

fn load(ssrc: &str, dsrc: &str) -> Result<(Valid<Schema>, Valid<ExecutableDocument>), String> {
    let schema = Schema::parse_and_validate(unhex(ssrc), "schema.graphql")
        .map_err(|e| format!("schema:{}", e.errors.iter().next().map(|d| d.error.to_string()).unwrap_or_default()))?;
    let doc = ExecutableDocument::parse_and_validate(&schema, unhex(dsrc), "doc.graphql")
        .map_err(|e| format!("doc:{}", e.errors.iter().next().map(|d| d.error.to_string()).unwrap_or_default()))?;
    Ok((schema, doc))
}

fn smith_prepare(line: &str) -> String {
    let (ssrc, dsrc) = line.split_once(' ').expect("two fields");
    match load(ssrc, dsrc) {
        Err(e) => format!("invalid {}", hex(&e)),
        Ok((schema, _)) => {
            let ast = apollo_compiler::ast::Document::parse(unhex(dsrc), "doc.graphql").expect("parsed before");
            format!(
                "ok {} {}",
                crate::schemadump::schema(&schema, true),
                crate::astdump::document(&ast)
            )
        }
    }
}

fn parse_stream(s: &str) -> Vec<u64> {
    if s == "-" {
        vec![]
    } else {
        s.split('.').map(|x| x.parse().expect("choice")).collect()
    }
}

fn smith_response(line: &str) -> String {
    let p: Vec<&str> = line.split(' ').collect();
    let (nul, mn, mx, streams, opname, ssrc, dsrc) = (p[0], p[1], p[2], p[3], p[4], p[5], p[6]);
    let (schema, doc) = match load(ssrc, dsrc) {
        Ok(x) => x,
        Err(e) => return format!("invalid-input {}", hex(&e)),
    };
    let opname: Option<String> = if opname == "-" { None } else { Some(unhex(opname)) };
    let null_ratio: Option<(u32, u32)> = if nul == "none" {
        None
    } else {
        let (a, b) = nul.split_once('/').expect("ratio");
        Some((a.parse().unwrap(), b.parse().unwrap()))
    };
    let (mn, mx): (usize, usize) = (mn.parse().unwrap(), mx.parse().unwrap());
    let mut results = Vec::new();
    let mut bad: Option<String> = None;
    for (i, st) in streams.split(';').enumerate() {
        let mut rng = Replay { stream: parse_stream(st), pos: 0 };
        let r = std::panic::catch_unwind(std::panic::AssertUnwindSafe(|| {
            let mut b = ResponseBuilder::new(&mut rng, &doc, &schema)
                .with_min_list_size(mn)
                .with_max_list_size(mx)
                .with_operation_name(opname.as_deref());
            if let Some((n, d)) = null_ratio {
                b = b.with_null_ratio(n, d);
            }
            b.build_data()
        }));
        match r {
            Err(_) => results.push("panic".to_string()),
            Ok(Err(ResponseError::Exhausted)) => results.push("exhausted".to_string()),
            Ok(Err(ResponseError::EmptyChoose)) => results.push("emptychoose".to_string()),
            Ok(Err(ResponseError::InvalidFormat(_))) => results.push("invalidformat".to_string()),
            Ok(Ok(data)) => {
                let mut s = String::from("ok:");
                show_json(&data, &mut s);
                results.push(s);
                if bad.is_none() {
                    if let Err(e) = oracle(&schema, &doc, opname.as_deref(), &data) {
                        bad = Some(format!("{i}:{}", hex(&e)));
                    }
                }
            }
        }
    }
    format!(
        "{} oracle={}",
        results.join(";"),
        match bad {
            None => "ok".to_string(),
            Some(b) => format!("bad:{b}"),
        }
    )
}

// ---------------------------------------------------------------- the known class (Known_C33)

fn cov_set(schema: &Schema, set: &apollo_compiler::executable::SelectionSet) -> bool {
    set.selections.iter().any(|sel| match sel {
        Selection::Field(f) => {
            let here = f.name != "__typename"
                && schema.types.iter().any(|(n, t)| match t {
                    ExtendedType::Object(o) if o.implements_interfaces.iter().any(|i| i.name == set.ty) => {
                        match schema.type_field(n, &f.name) {
                            Ok(def) => def.ty != f.definition.ty,
                            Err(_) => true,
                        }
                    }
                    _ => false,
                })
                && matches!(schema.types.get(&set.ty), Some(ExtendedType::Interface(_)));
            here || cov_set(schema, &f.selection_set)
        }
        Selection::FragmentSpread(_) => false,
        Selection::InlineFragment(i) => cov_set(schema, &i.selection_set),
    })
}

fn smith_class(line: &str) -> String {
    let p: Vec<&str> = line.split(' ').collect();
    let (schema, doc) = match load(p[1], p[2]) {
        Ok(x) => x,
        Err(e) => return format!("invalid-input {}", hex(&e)),
    };
    let cov = doc.operations.iter().any(|op| cov_set(&schema, &op.selection_set))
        || doc.fragments.values().any(|f| cov_set(&schema, &f.selection_set));
    // `typed=1`: the inputs went through the real validator; the model evaluates the decidable hypotheses of
    // C33_no_panic on the dumps and must agree
    format!("cov={} typed=1", cov as u8)
}
