//! C11: offsets -> line/column through the public API, and the spans of every node and name
//! reachable in ast::Document, Schema and ExecutableDocument built from one source text.
use crate::util::*;
use apollo_compiler::ast;
use apollo_compiler::diagnostic::ToCliReport;
use apollo_compiler::executable as exe;
use apollo_compiler::parser::{FileId, LineColumn, SourceFile, SourceMap, SourceSpan};
use apollo_compiler::schema as sch;
use apollo_compiler::validation::DiagnosticList;
use apollo_compiler::{Name, Node};
use std::sync::Arc;

pub fn families() -> Vec<(&'static str, crate::Family)> {
    vec![("c11_linecol", c11_linecol), ("c11_range", c11_range), ("c11_spans", c11_spans)]
}

fn parse(s: &str) -> (ast::Document, Option<DiagnosticList>) {
    match ast::Document::parse(s, "doc.graphql") {
        Ok(d) => (d, None),
        Err(e) => (e.partial, Some(e.errors)),
    }
}

fn the_file(doc: &ast::Document) -> (FileId, Arc<SourceFile>) {
    let (id, f) = doc.sources.iter().next().expect("one source file");
    (*id, f.clone())
}

fn lc(x: Option<LineColumn>) -> String {
    match x {
        Some(p) => format!("{}:{}", p.line, p.column),
        None => "none".to_string(),
    }
}

/// input: hex source; output: SourceFile::get_line_column(off) for every off in 0..=len+1
fn c11_linecol(line: &str) -> String {
    let s = unhex(line);
    let (doc, _) = parse(&s);
    let (_, file) = the_file(&doc);
    let out: Vec<String> = (0..=s.len() + 1).map(|off| lc(file.get_line_column(off))).collect();
    out.join(",")
}

/// input: `<hex source> <start> <end>`; output: SourceFile::get_line_column_range(start..end)
fn c11_range(line: &str) -> String {
    let parts: Vec<&str> = line.split(' ').collect();
    let s = unhex(parts[0]);
    let (a, b): (usize, usize) = (parts[1].parse().unwrap(), parts[2].parse().unwrap());
    let (doc, _) = parse(&s);
    let (_, file) = the_file(&doc);
    match file.get_line_column_range(a..b) {
        Some(r) => format!("{}-{}", lc(Some(r.start)), lc(Some(r.end))),
        None => "none".to_string(),
    }
}

type Sp = Option<(usize, usize)>;

struct Ck<'a> {
    src: &'a str,
    file: Arc<SourceFile>,
    file_id: FileId,
    sources: &'a SourceMap,
    nodes: usize,
    names: usize,
    diags: usize,
    bad: Option<String>,
}

impl Ck<'_> {
    fn fail(&mut self, why: String) {
        if self.bad.is_none() {
            self.bad = Some(why);
        }
    }

    /// a location must lie inside the file, on character boundaries, and convert to the same
    /// line/column pair through every public path
    fn span(&mut self, what: &str, loc: Option<SourceSpan>, required: bool) -> Option<(usize, usize)> {
        let Some(l) = loc else {
            if required {
                self.fail(format!("{what}:no-location"));
            }
            return None;
        };
        if l.file_id() != self.file_id {
            return None; // built-in definitions
        }
        let (s, e) = (l.offset(), l.end_offset());
        if !(s <= e && e <= self.src.len()) {
            self.fail(format!("{what}:out-of-file:{s}..{e}"));
            return None;
        }
        if !(self.src.is_char_boundary(s) && self.src.is_char_boundary(e)) {
            self.fail(format!("{what}:not-on-char-boundary:{s}..{e}"));
            return None;
        }
        if l.node_len() != e - s {
            self.fail(format!("{what}:node_len:{s}..{e}"));
        }
        let direct = self.file.get_line_column_range(s..e);
        let ends = match (self.file.get_line_column(s), self.file.get_line_column(e)) {
            (Some(a), Some(b)) => Some(a..b),
            _ => None,
        };
        if l.line_column_range(self.sources) != direct || direct != ends {
            self.fail(format!("{what}:line_column_range:{s}..{e}"));
        }
        if l.line_column(self.sources) != self.file.get_line_column(s) {
            self.fail(format!("{what}:line_column:{s}"));
        }
        Some((s, e))
    }

    fn name(&mut self, what: &str, n: &Name, required: bool) -> Sp {
        self.names += 1;
        let sp = self.span(what, n.location(), required);
        if let Some((s, e)) = sp {
            if &self.src[s..e] != n.as_str() {
                self.fail(format!("{what}:name-text:{s}..{e}:{}", n.as_str()));
            }
            if n.line_column_range(self.sources) != self.file.get_line_column_range(s..e) {
                self.fail(format!("{what}:name-line_column_range:{s}..{e}"));
            }
        }
        sp
    }

    /// a component (name, argument, value, ...) lies inside the node it belongs to
    fn inside(&mut self, what: &str, outer: Sp, inner: Sp) {
        if let (Some((os, oe)), Some((is, ie))) = (outer, inner) {
            if !(os <= is && ie <= oe) {
                self.fail(format!("{what}:not-inside-parent:{is}..{ie}:{os}..{oe}"));
            }
        }
    }

    fn node<T: ?Sized>(&mut self, what: &str, n: &Node<T>, required: bool) -> Sp {
        self.nodes += 1;
        let sp = self.span(what, n.location(), required);
        if let Some((s, e)) = sp {
            if n.line_column_range(self.sources) != self.file.get_line_column_range(s..e) {
                self.fail(format!("{what}:node-line_column_range:{s}..{e}"));
            }
        }
        sp
    }

    // ---- shared AST pieces (also used by Schema and ExecutableDocument)
    fn ty(&mut self, t: &ast::Type, req: bool, outer: Sp) {
        let n = self.name("type-ref", t.inner_named_type(), req);
        self.inside("type-ref", outer, n);
    }

    fn value(&mut self, v: &Node<ast::Value>, req: bool, outer: Sp) {
        let me = self.node("value", v, req);
        self.inside("value", outer, me);
        match &**v {
            ast::Value::Enum(n) => {
                let x = self.name("enum-value", n, req);
                self.inside("enum-value", me, x);
            }
            ast::Value::Variable(n) => {
                let x = self.name("variable", n, req);
                self.inside("variable", me, x);
            }
            ast::Value::List(l) => {
                for x in l {
                    self.value(x, req, me)
                }
            }
            ast::Value::Object(l) => {
                for (k, x) in l {
                    let kk = self.name("object-key", k, req);
                    self.inside("object-key", me, kk);
                    self.value(x, req, me)
                }
            }
            _ => {}
        }
    }

    fn args(&mut self, a: &[Node<ast::Argument>], req: bool, outer: Sp) {
        for x in a {
            let me = self.node("argument", x, req);
            self.inside("argument", outer, me);
            let n = self.name("argument-name", &x.name, req);
            self.inside("argument-name", me, n);
            self.value(&x.value, req, me);
        }
    }

    fn directives(&mut self, d: &ast::DirectiveList, req: bool, outer: Sp) {
        for x in d.iter() {
            let me = self.node("directive", x, req);
            self.inside("directive", outer, me);
            let n = self.name("directive-name", &x.name, req);
            self.inside("directive-name", me, n);
            self.args(&x.arguments, req, me);
        }
    }

    fn desc(&mut self, d: &Option<Node<str>>, req: bool, outer: Sp) {
        if let Some(d) = d {
            let me = self.node("description", d, req);
            self.inside("description", outer, me);
        }
    }

    fn input_value(&mut self, x: &Node<ast::InputValueDefinition>, req: bool, outer: Sp) {
        let me = self.node("input-value-def", x, req);
        self.inside("input-value-def", outer, me);
        self.desc(&x.description, req, me);
        let n = self.name("input-value-name", &x.name, req);
        self.inside("input-value-name", me, n);
        let t = self.node("input-value-type", &x.ty, req);
        self.inside("input-value-type", me, t);
        self.ty(&x.ty, req, t);
        if let Some(v) = &x.default_value {
            self.value(v, req, me);
        }
        self.directives(&x.directives, req, me);
    }

    fn field_def(&mut self, x: &Node<ast::FieldDefinition>, req: bool, outer: Sp) {
        let me = self.node("field-def", x, req);
        self.inside("field-def", outer, me);
        self.desc(&x.description, req, me);
        let n = self.name("field-def-name", &x.name, req);
        self.inside("field-def-name", me, n);
        for a in &x.arguments {
            self.input_value(a, req, me);
        }
        self.ty(&x.ty, req, me);
        self.directives(&x.directives, req, me);
    }

    fn enum_value(&mut self, x: &Node<ast::EnumValueDefinition>, req: bool, outer: Sp) {
        let me = self.node("enum-value-def", x, req);
        self.inside("enum-value-def", outer, me);
        self.desc(&x.description, req, me);
        let n = self.name("enum-value-def-name", &x.value, req);
        self.inside("enum-value-def-name", me, n);
        self.directives(&x.directives, req, me);
    }

    fn var_def(&mut self, x: &Node<ast::VariableDefinition>, req: bool, outer: Sp) {
        let me = self.node("variable-def", x, req);
        self.inside("variable-def", outer, me);
        let n = self.name("variable-def-name", &x.name, req);
        self.inside("variable-def-name", me, n);
        let t = self.node("variable-def-type", &x.ty, req);
        self.inside("variable-def-type", me, t);
        self.ty(&x.ty, req, t);
        if let Some(v) = &x.default_value {
            self.value(v, req, me);
        }
        self.directives(&x.directives, req, me);
    }

    fn directive_def(&mut self, x: &Node<ast::DirectiveDefinition>, req: bool) {
        let me = self.node("directive-def", x, req);
        self.desc(&x.description, req, me);
        let n = self.name("directive-def-name", &x.name, req);
        self.inside("directive-def-name", me, n);
        for a in &x.arguments {
            self.input_value(a, req, me);
        }
    }

    // ---- ast::Document
    fn ast_selections(&mut self, sels: &[ast::Selection], outer: Sp) {
        for s in sels {
            match s {
                ast::Selection::Field(f) => {
                    let me = self.node("field", f, true);
                    self.inside("field", outer, me);
                    if let Some(a) = &f.alias {
                        let x = self.name("alias", a, true);
                        self.inside("alias", me, x);
                    }
                    let x = self.name("field-name", &f.name, true);
                    self.inside("field-name", me, x);
                    self.args(&f.arguments, true, me);
                    self.directives(&f.directives, true, me);
                    self.ast_selections(&f.selection_set, me);
                }
                ast::Selection::FragmentSpread(f) => {
                    let me = self.node("spread", f, true);
                    self.inside("spread", outer, me);
                    let x = self.name("spread-name", &f.fragment_name, true);
                    self.inside("spread-name", me, x);
                    self.directives(&f.directives, true, me);
                }
                ast::Selection::InlineFragment(f) => {
                    let me = self.node("inline", f, true);
                    self.inside("inline", outer, me);
                    if let Some(t) = &f.type_condition {
                        let x = self.name("type-condition", t, true);
                        self.inside("type-condition", me, x);
                    }
                    self.directives(&f.directives, true, me);
                    self.ast_selections(&f.selection_set, me);
                }
            }
        }
    }

    fn root_ops(&mut self, r: &[Node<(ast::OperationType, ast::NamedType)>], outer: Sp) {
        for x in r {
            let me = self.node("root-operation", x, true);
            self.inside("root-operation", outer, me);
            let n = self.name("root-operation-type", &x.1, true);
            self.inside("root-operation-type", me, n);
        }
    }

    fn ast_doc(&mut self, doc: &ast::Document) {
        use ast::Definition as D;
        for def in &doc.definitions {
            let dsp = self.span("definition", def.location(), true);
            self.nodes += 1;
            if let Some(n) = def.name() {
                let x = self.name("definition-name", n, true);
                self.inside("definition-name", dsp, x);
            }
            self.directives(def.directives(), true, dsp);
            match def {
                D::OperationDefinition(d) => {
                    self.node("operation", d, true);
                    for v in &d.variables {
                        self.var_def(v, true, dsp);
                    }
                    self.ast_selections(&d.selection_set, dsp);
                }
                D::FragmentDefinition(d) => {
                    self.node("fragment", d, true);
                    let x = self.name("type-condition", &d.type_condition, true);
                    self.inside("type-condition", dsp, x);
                    self.ast_selections(&d.selection_set, dsp);
                }
                D::DirectiveDefinition(d) => self.directive_def(d, true),
                D::SchemaDefinition(d) => {
                    self.desc(&d.description, true, dsp);
                    self.root_ops(&d.root_operations, dsp);
                }
                D::SchemaExtension(d) => self.root_ops(&d.root_operations, dsp),
                D::ScalarTypeDefinition(d) => self.desc(&d.description, true, dsp),
                D::ScalarTypeExtension(_) => {}
                D::ObjectTypeDefinition(d) => {
                    self.desc(&d.description, true, dsp);
                    for n in &d.implements_interfaces {
                        let x = self.name("implements", n, true);
                        self.inside("implements", dsp, x);
                    }
                    for f in &d.fields {
                        self.field_def(f, true, dsp);
                    }
                }
                D::ObjectTypeExtension(d) => {
                    for n in &d.implements_interfaces {
                        let x = self.name("implements", n, true);
                        self.inside("implements", dsp, x);
                    }
                    for f in &d.fields {
                        self.field_def(f, true, dsp);
                    }
                }
                D::InterfaceTypeDefinition(d) => {
                    self.desc(&d.description, true, dsp);
                    for n in &d.implements_interfaces {
                        let x = self.name("implements", n, true);
                        self.inside("implements", dsp, x);
                    }
                    for f in &d.fields {
                        self.field_def(f, true, dsp);
                    }
                }
                D::InterfaceTypeExtension(d) => {
                    for n in &d.implements_interfaces {
                        let x = self.name("implements", n, true);
                        self.inside("implements", dsp, x);
                    }
                    for f in &d.fields {
                        self.field_def(f, true, dsp);
                    }
                }
                D::UnionTypeDefinition(d) => {
                    self.desc(&d.description, true, dsp);
                    for n in &d.members {
                        let x = self.name("union-member", n, true);
                        self.inside("union-member", dsp, x);
                    }
                }
                D::UnionTypeExtension(d) => {
                    for n in &d.members {
                        let x = self.name("union-member", n, true);
                        self.inside("union-member", dsp, x);
                    }
                }
                D::EnumTypeDefinition(d) => {
                    self.desc(&d.description, true, dsp);
                    for v in &d.values {
                        self.enum_value(v, true, dsp);
                    }
                }
                D::EnumTypeExtension(d) => {
                    for v in &d.values {
                        self.enum_value(v, true, dsp);
                    }
                }
                D::InputObjectTypeDefinition(d) => {
                    self.desc(&d.description, true, dsp);
                    for f in &d.fields {
                        self.input_value(f, true, dsp);
                    }
                }
                D::InputObjectTypeExtension(d) => {
                    for f in &d.fields {
                        self.input_value(f, true, dsp);
                    }
                }
            }
        }
    }

    // ---- Schema (locations are checked where present: built-ins and implicit parts have none here)
    fn sch_directives(&mut self, d: &sch::DirectiveList) {
        for x in d.iter() {
            self.node("schema-directive", &x.node, false);
            self.name("schema-directive-name", &x.name, false);
            self.args(&x.arguments, false, None);
        }
    }

    fn schema(&mut self, s: &sch::Schema) {
        let sd = &s.schema_definition;
        self.node("schema-def", sd, false);
        self.desc(&sd.description, false, None);
        self.sch_directives(&sd.directives);
        for r in [&sd.query, &sd.mutation, &sd.subscription].into_iter().flatten() {
            self.name("schema-root", &r.name, false);
        }
        for (k, d) in &s.directive_definitions {
            self.name("schema-directive-def-key", k, false);
            self.directive_def(d, false);
        }
        for (k, t) in &s.types {
            self.name("schema-type-key", k, false);
            self.name("schema-type-name", t.name(), false);
            self.span("schema-type", t.location(), false);
            self.nodes += 1;
            self.sch_directives(t.directives());
            match t {
                sch::ExtendedType::Scalar(t) => self.desc(&t.description, false, None),
                sch::ExtendedType::Object(t) => {
                    self.desc(&t.description, false, None);
                    for i in &t.implements_interfaces {
                        self.name("schema-implements", &i.name, false);
                    }
                    for (k, f) in &t.fields {
                        self.name("schema-field-key", k, false);
                        self.field_def(&f.node, false, None);
                    }
                }
                sch::ExtendedType::Interface(t) => {
                    self.desc(&t.description, false, None);
                    for i in &t.implements_interfaces {
                        self.name("schema-implements", &i.name, false);
                    }
                    for (k, f) in &t.fields {
                        self.name("schema-field-key", k, false);
                        self.field_def(&f.node, false, None);
                    }
                }
                sch::ExtendedType::Union(t) => {
                    self.desc(&t.description, false, None);
                    for m in &t.members {
                        self.name("schema-union-member", &m.name, false);
                    }
                }
                sch::ExtendedType::Enum(t) => {
                    self.desc(&t.description, false, None);
                    for (k, v) in &t.values {
                        self.name("schema-enum-key", k, false);
                        self.enum_value(&v.node, false, None);
                    }
                }
                sch::ExtendedType::InputObject(t) => {
                    self.desc(&t.description, false, None);
                    for (k, f) in &t.fields {
                        self.name("schema-input-key", k, false);
                        self.input_value(&f.node, false, None);
                    }
                }
            }
        }
    }

    // ---- ExecutableDocument
    fn exe_set(&mut self, set: &exe::SelectionSet) {
        self.name("selection-set-type", &set.ty, false);
        for s in &set.selections {
            match s {
                exe::Selection::Field(f) => {
                    self.node("exe-field", f, false);
                    if let Some(a) = &f.alias {
                        self.name("exe-alias", a, false);
                    }
                    self.name("exe-field-name", &f.name, false);
                    self.args(&f.arguments, false, None);
                    self.directives(&f.directives, false, None);
                    self.exe_set(&f.selection_set);
                }
                exe::Selection::FragmentSpread(f) => {
                    self.node("exe-spread", f, false);
                    self.name("exe-spread-name", &f.fragment_name, false);
                    self.directives(&f.directives, false, None);
                }
                exe::Selection::InlineFragment(f) => {
                    self.node("exe-inline", f, false);
                    if let Some(t) = &f.type_condition {
                        self.name("exe-type-condition", t, false);
                    }
                    self.directives(&f.directives, false, None);
                    self.exe_set(&f.selection_set);
                }
            }
        }
    }

    fn executable(&mut self, d: &exe::ExecutableDocument) {
        for op in d.operations.anonymous.iter().chain(d.operations.named.values()) {
            self.node("exe-operation", op, false);
            if let Some(n) = &op.name {
                self.name("exe-operation-name", n, false);
            }
            for v in &op.variables {
                self.var_def(v, false, None);
            }
            self.directives(&op.directives, false, None);
            self.exe_set(&op.selection_set);
        }
        for (k, f) in &d.fragments {
            self.name("exe-fragment-key", k, false);
            self.node("exe-fragment", f, false);
            self.name("exe-fragment-name", &f.name, false);
            self.directives(&f.directives, false, None);
            self.exe_set(&f.selection_set);
        }
    }

    // ---- diagnostics: the reported range and the JSON location are the conversions of the span
    fn diagnostics(&mut self, list: &DiagnosticList) {
        for d in list.iter() {
            self.diags += 1;
            let loc = d.error.location();
            let in_file = loc.filter(|l| l.file_id() == self.file_id);
            if let Some((s, e)) = self.span("diagnostic", in_file, false) {
                if d.line_column_range() != self.file.get_line_column_range(s..e) {
                    self.fail(format!("diagnostic:line_column_range:{s}..{e}"));
                }
                let json = d.to_json();
                let want: Vec<LineColumn> = self.file.get_line_column(s).into_iter().collect();
                if json.locations != want {
                    self.fail(format!("diagnostic:json-location:{s}"));
                }
                // serialised form: {"line": l, "column": c}
                if let (Some(w), Ok(v)) = (want.first(), serde_json::to_value(&json)) {
                    let l0 = &v["locations"][0];
                    if l0["line"].as_u64() != Some(w.line as u64) || l0["column"].as_u64() != Some(w.column as u64) {
                        self.fail(format!("diagnostic:json-serialised:{s}"));
                    }
                }
            } else if loc.is_none() && !d.to_json().locations.is_empty() {
                self.fail("diagnostic:json-location-without-span".to_string());
            }
        }
    }
}

/// input: hex source.  output: `spans nodes=<n> names=<m> diags=<k> oracle=...`
fn c11_spans(line: &str) -> String {
    let s = unhex(line);
    let (doc, parse_errors) = parse(&s);
    let (file_id, file) = the_file(&doc);
    let sources = doc.sources.clone();
    let mut ck = Ck { src: &s, file, file_id, sources: &sources, nodes: 0, names: 0, diags: 0, bad: None };
    if ck.file.source_text() != s {
        ck.fail("source_text-differs".to_string());
    }
    ck.ast_doc(&doc);
    if let Some(e) = &parse_errors {
        ck.diagnostics(e);
    }
    let schema = match doc.to_schema_validate() {
        Ok(s) => s.into_inner(),
        Err(e) => {
            ck.diagnostics(&e.errors);
            e.partial
        }
    };
    ck.schema(&schema);
    match doc.to_executable_validate(apollo_compiler::validation::Valid::assume_valid_ref(&schema)) {
        Ok(d) => ck.executable(&d),
        Err(e) => {
            ck.diagnostics(&e.errors);
            ck.executable(&e.partial);
        }
    }
    let oracle = match &ck.bad {
        None => "ok".to_string(),
        Some(w) => format!("bad:{}", w.replace(' ', "_")),
    };
    format!("spans nodes={} names={} diags={} oracle={}", ck.nodes, ck.names, ck.diags, oracle)
}
