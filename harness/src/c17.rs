//! C17: executable validation agrees with the specification.
//! Observation: `ExecutableDocument::parse_and_validate(&schema, text).is_ok()`; on failure the distinct
//! diagnostic kinds (never the messages) are appended for triage, the driver compares only the first word.
use crate::util::*;
use apollo_compiler::validation::Valid;
use apollo_compiler::ExecutableDocument;
use apollo_compiler::Schema;
use std::cell::RefCell;

pub fn families() -> Vec<(&'static str, crate::Family)> {
    vec![("c17_valid", c17_valid)]
}

thread_local! {
    // the last schema source and its validated schema (pure caching: cases of one schema are contiguous)
    static LAST: RefCell<Option<(String, Option<Valid<Schema>>)>> = RefCell::new(None);
}

fn with_schema<R>(src: &str, f: impl FnOnce(Option<&Valid<Schema>>) -> R) -> R {
    LAST.with(|l| {
        let mut l = l.borrow_mut();
        let hit = matches!(&*l, Some((s, _)) if s == src);
        if !hit {
            let v = Schema::parse_and_validate(src.to_string(), "schema.graphql").ok();
            *l = Some((src.to_string(), v));
        }
        f(l.as_ref().unwrap().1.as_ref())
    })
}

/// input: `<hex schema source> <hex executable source>`
/// output: `valid` | `invalid <kind,kind,...>` | `schema-invalid`
fn c17_valid(line: &str) -> String {
    let (hs, hd) = line.split_once(' ').expect("schema and document");
    let schema_src = unhex(hs);
    let doc_src = unhex(hd);
    with_schema(&schema_src, |schema| {
        let Some(schema) = schema else {
            return "schema-invalid".to_string();
        };
        match ExecutableDocument::parse_and_validate(schema, doc_src, "doc.graphql") {
            Ok(_) => "valid".to_string(),
            Err(e) => {
                let mut kinds: Vec<&'static str> = e
                    .errors
                    .iter()
                    .map(|d| d.error.unstable_error_name().unwrap_or("Other"))
                    .collect();
                kinds.sort();
                kinds.dedup();
                format!("invalid {}", kinds.join(","))
            }
        }
    })
}
