//! C31: file-id allocation under a forced schedule (through the cfg(apollo_rs_verif) hook
//! `apollo_compiler::parser::__verif_fileid`), TaggedFileId packing, and the concurrent workload over one
//! shared `Valid<Schema>`.
//!
//! All numbers on the wire are lowercase hex without prefix.
use crate::util::*;
use apollo_compiler::parser::__verif_fileid as hook;
use apollo_compiler::parser::FileId;
use apollo_compiler::ExecutableDocument;
use apollo_compiler::Schema;
use std::cell::Cell;
use std::sync::{Arc, Barrier, Condvar, Mutex, OnceLock};
use std::time::{Duration, Instant};

pub fn families() -> Vec<(&'static str, crate::Family)> {
    vec![
        ("fileid_trace", fileid_trace),
        ("fileid_sched", fileid_sched),
        ("fileid_free", fileid_free),
        ("tfi_pack", tfi_pack),
        ("shared_workload", shared_workload),
    ]
}

const TAG: u64 = 1 << 63;

fn hx(s: &str) -> u64 {
    u64::from_str_radix(s, 16).expect("hex number")
}

// ------------------------------------------------------------------------------------------------
// The turnstile: a schedule is a list of thread ids; the k-th atomic operation on NEXT is performed by
// thread sched[k].  Entries naming a thread that has finished all its calls are skipped.  When the schedule
// is used up the remaining threads run freely (flag `exhausted`).

#[derive(Default)]
struct Ts {
    active: bool,
    sched: Vec<usize>,
    pos: usize,
    done: Vec<bool>,
    holder: Option<usize>,
    exhausted: bool,
    log: Vec<(usize, hook::__VerifOp)>,
    deadline: Option<Instant>,
}

struct Turnstile {
    m: Mutex<Ts>,
    cv: Condvar,
}

thread_local! { static TID: Cell<Option<usize>> = const { Cell::new(None) }; }

fn turnstile() -> &'static Turnstile {
    static T: OnceLock<Turnstile> = OnceLock::new();
    T.get_or_init(|| {
        let h: hook::__VerifHook = Arc::new(|phase, op| on_op(phase, op));
        hook::__verif_set_hook(Some(h));
        Turnstile {
            m: Mutex::new(Ts::default()),
            cv: Condvar::new(),
        }
    })
}

fn lock(t: &Turnstile) -> std::sync::MutexGuard<'_, Ts> {
    t.m.lock().unwrap_or_else(|e| e.into_inner())
}

fn on_op(phase: hook::__VerifPhase, op: &hook::__VerifOp) {
    let Some(me) = TID.with(|c| c.get()) else {
        return;
    };
    let t = turnstile();
    let mut g = lock(t);
    if !g.active {
        return;
    }
    match phase {
        hook::__VerifPhase::Before => loop {
            while g.pos < g.sched.len() && g.done[g.sched[g.pos]] {
                g.pos += 1;
                t.cv.notify_all();
            }
            if g.pos >= g.sched.len() {
                g.exhausted = true;
                return;
            }
            if g.sched[g.pos] == me && g.holder.is_none() {
                g.holder = Some(me);
                return;
            }
            if g.deadline.is_some_and(|d| Instant::now() > d) {
                g.exhausted = true;
                g.pos = g.sched.len();
                t.cv.notify_all();
                return;
            }
            g = t
                .cv
                .wait_timeout(g, Duration::from_millis(200))
                .unwrap_or_else(|e| e.into_inner())
                .0;
        },
        hook::__VerifPhase::After => {
            g.log.push((me, *op));
            if g.holder == Some(me) {
                g.holder = None;
                g.pos += 1;
                t.cv.notify_all();
            }
        }
    }
}

struct DoneGuard(usize);
impl Drop for DoneGuard {
    fn drop(&mut self) {
        let t = turnstile();
        let mut g = lock(t);
        if g.holder == Some(self.0) {
            g.holder = None;
            g.pos += 1;
        }
        if self.0 < g.done.len() {
            g.done[self.0] = true;
        }
        t.cv.notify_all();
    }
}

struct RunResult {
    ids: Vec<Vec<u64>>,
    panicked: Vec<bool>,
    cell: u64,
    exhausted: bool,
    log: Vec<(usize, hook::__VerifOp)>,
}

/// todos[i] = the calls of thread i: 'n' = FileId::new, 'r' = FileId::reset.  sched = None: free running.
fn run_threads(start: u64, todos: &[Vec<u8>], sched: Option<Vec<usize>>) -> RunResult {
    let t = turnstile();
    {
        let mut g = lock(t);
        *g = Ts {
            active: true,
            exhausted: false,
            pos: 0,
            holder: None,
            done: vec![false; todos.len()],
            log: Vec::new(),
            deadline: Some(Instant::now() + Duration::from_secs(20)),
            sched: sched.clone().unwrap_or_default(),
        };
    }
    hook::__verif_set_next(start);
    let barrier = Arc::new(Barrier::new(todos.len()));
    let handles: Vec<_> = todos
        .iter()
        .cloned()
        .enumerate()
        .map(|(i, todo)| {
            let barrier = barrier.clone();
            let out = Arc::new(Mutex::new(Vec::new()));
            let out2 = out.clone();
            let h = std::thread::spawn(move || {
                TID.with(|c| c.set(Some(i)));
                let _guard = DoneGuard(i);
                barrier.wait();
                for c in todo {
                    if c == b'n' {
                        let id = hook::__verif_file_id_raw(FileId::new());
                        out2.lock().unwrap().push(id);
                    } else {
                        FileId::reset();
                    }
                }
            });
            (h, out)
        })
        .collect();
    let mut ids = Vec::new();
    let mut panicked = Vec::new();
    for (h, out) in handles {
        panicked.push(h.join().is_err());
        let v = out.lock().unwrap_or_else(|e| e.into_inner()).clone();
        ids.push(v);
    }
    let cell = hook::__verif_get_next();
    let mut g = lock(t);
    g.active = false;
    RunResult {
        ids,
        panicked,
        cell,
        exhausted: g.exhausted && sched.is_some(),
        log: std::mem::take(&mut g.log),
    }
}

fn parse_todos(s: &str) -> Vec<Vec<u8>> {
    s.split(',')
        .map(|t| if t == "-" { Vec::new() } else { t.bytes().collect() })
        .collect()
}

fn show_ids(ids: &[Vec<u64>]) -> String {
    ids.iter()
        .map(|v| {
            if v.is_empty() {
                "-".to_string()
            } else {
                v.iter().map(|x| format!("{x:x}")).collect::<Vec<_>>().join(".")
            }
        })
        .collect::<Vec<_>>()
        .join("/")
}

/// The property's oracle on the implementation alone: every id in [3, 2^63); if the counter stayed below 2^63
/// and nobody called reset, all ids distinct.
fn id_oracle(start: u64, todos: &[Vec<u8>], r: &RunResult) -> String {
    let all: Vec<u64> = r.ids.iter().flatten().copied().collect();
    if let Some(x) = all.iter().find(|x| **x < 3 || **x >= TAG) {
        return format!("bad:reserved-or-tagged-id-{x:x}");
    }
    if r.panicked.iter().any(|p| *p) {
        return "bad:panic-in-FileId-new".to_string();
    }
    let resets = todos.iter().flatten().any(|c| *c == b'r');
    let clean = start < TAG
        && r.cell < TAG
        && r.log.iter().all(|(_, op)| {
            op.read.map_or(true, |v| v < TAG) && op.written.map_or(true, |v| v < TAG)
        });
    if clean && !resets {
        let mut s = all.clone();
        s.sort();
        if let Some(w) = s.windows(2).find(|w| w[0] == w[1]) {
            return format!("bad:duplicate-id-{:x}", w[0]);
        }
    }
    "ok".to_string()
}

/// input: `<prog_new> <prog_reset> <start> <todos> <sched>` (the two program fields are for the model only)
/// output: `ids=<t0 ids>/<t1 ids>/.. cell=<final counter> done=<1 if every call completed inside the schedule>`
fn fileid_sched(line: &str) -> String {
    let f: Vec<&str> = line.split(' ').collect();
    let start = hx(f[2]);
    let todos = parse_todos(f[3]);
    let sched: Vec<usize> = split_nonempty(f[4], ',')
        .iter()
        .map(|x| x.parse().expect("tid"))
        .filter(|t| *t < todos.len())
        .collect();
    let r = run_threads(start, &todos, Some(sched));
    format!(
        "ids={} cell={:x} done={} oracle={}",
        show_ids(&r.ids),
        r.cell,
        if r.exhausted || r.panicked.iter().any(|p| *p) { 0 } else { 1 },
        id_oracle(start, &todos, &r)
    )
}

/// input: `<start> new|reset`  output: `ops=<kind:operand:read:written;...> ret=<id|->`
fn fileid_trace(line: &str) -> String {
    let f: Vec<&str> = line.split(' ').collect();
    let start = hx(f[0]);
    let todo = if f[1] == "new" { b"n".to_vec() } else { b"r".to_vec() };
    let r = run_threads(start, &[todo], None);
    let o = |v: Option<u64>| v.map_or("-".to_string(), |x| format!("{x:x}"));
    let ops: Vec<String> = r
        .log
        .iter()
        .map(|(_, op)| {
            format!(
                "{}:{:x}:{:x}:{}:{}",
                op.kind,
                op.operand,
                op.expected,
                o(op.read),
                o(op.written)
            )
        })
        .collect();
    format!(
        "ops={} ret={}{}",
        if ops.is_empty() { "-".to_string() } else { ops.join(";") },
        r.ids[0].first().map_or("-".to_string(), |x| format!("{x:x}")),
        if r.panicked[0] { " panicked" } else { "" }
    )
}

/// input: `<prog_new> <prog_reset> <start> <threads> <calls>`, free running.
/// output: `n=<ids> inrange=<0|1> distinct=<0|1|-> contiguous=<0|1|->` ('-' when the counter reached 2^63)
fn fileid_free(line: &str) -> String {
    let f: Vec<&str> = line.split(' ').collect();
    let start = hx(f[2]);
    let threads: usize = f[3].parse().unwrap();
    let calls: usize = f[4].parse().unwrap();
    let todos = vec![vec![b'n'; calls]; threads];
    let r = run_threads(start, &todos, None);
    let mut all: Vec<u64> = r.ids.iter().flatten().copied().collect();
    all.sort();
    let inrange = all.iter().all(|x| *x >= 3 && *x < TAG);
    let wraps = start as u128 + all.len() as u128 > TAG as u128;
    let distinct = all.windows(2).all(|w| w[0] != w[1]);
    let contiguous = all.iter().enumerate().all(|(i, x)| *x == start.wrapping_add(i as u64));
    let b = |x: bool| if x { "1" } else { "0" };
    format!(
        "n={} inrange={} distinct={} contiguous={} oracle={}",
        all.len(),
        b(inrange),
        if wraps { "-" } else { b(distinct) },
        if wraps { "-" } else { b(contiguous) },
        id_oracle(start, &todos, &r)
    )
}

/// input: `<id> <tag 0|1>`  output: `packed=<hex> tag=<0|1> id=<hex>` | `none`
fn tfi_pack(line: &str) -> String {
    let f: Vec<&str> = line.split(' ').collect();
    let id = hx(f[0]);
    let tag = f[1] == "1";
    let Some(p) = hook::__verif_tagged_pack(tag, id) else {
        return "none".to_string();
    };
    let t = hook::__verif_tagged_tag(p);
    let back = hook::__verif_tagged_file_id(p);
    let oracle = if t == Some(tag) && back == Some(id) && p != 0 {
        "ok"
    } else {
        "bad:round-trip"
    };
    format!(
        "packed={:x} tag={} id={} oracle={}",
        p,
        t.map_or("-", |b| if b { "1" } else { "0" }),
        back.map_or("-".to_string(), |x| format!("{x:x}")),
        oracle
    )
}

// ------------------------------------------------------------------------------------------------
// Concurrent workload over one shared Valid<Schema>.  Must be the first case of a fresh process so that the
// first touches of the lazily initialised statics are raced.

fn render_schema(text: &str, path: &str) -> String {
    match Schema::parse_and_validate(text, path) {
        Ok(s) => format!("ok\n{s}"),
        Err(e) => format!("err\n{}\n--partial--\n{}", e.errors, e.partial),
    }
}

fn introspect(schema: &apollo_compiler::validation::Valid<Schema>, query: &str) -> String {
    use apollo_compiler::introspection;
    use apollo_compiler::request::coerce_variable_values;
    use apollo_compiler::response::JsonMap;
    let doc = match ExecutableDocument::parse_and_validate(schema, query, "introspect.graphql") {
        Ok(d) => d,
        Err(e) => return format!("invalid\n{}", e.errors),
    };
    let mut out = String::new();
    for op in doc.operations.iter() {
        let vars = match coerce_variable_values(schema, op, &JsonMap::default()) {
            Ok(v) => v,
            Err(e) => {
                out.push_str(&format!("request-error {}\n", e.message()));
                continue;
            }
        };
        match introspection::partial_execute(schema, &schema.implementers_map(), &doc, op, &vars) {
            Ok(resp) => out.push_str(&serde_json::to_string(&resp).unwrap_or_else(|e| format!("json-error {e}"))),
            Err(e) => out.push_str(&format!("request-error {}", e.message())),
        }
        out.push('\n');
    }
    out
}

fn exec_doc(schema: &apollo_compiler::validation::Valid<Schema>, text: &str) -> String {
    match ExecutableDocument::parse_and_validate(schema, text, "doc.graphql") {
        Ok(d) => format!("ok\n{d}"),
        Err(e) => format!("err\n{}\n--partial--\n{}", e.errors, e.partial),
    }
}

fn workload(
    schema: &apollo_compiler::validation::Valid<Schema>,
    second: &str,
    docs: &[String],
    queries: &[String],
    rot: usize,
) -> Vec<String> {
    // every thread does the same items, starting at a different one (rot), results stored by item index
    let n = docs.len() + queries.len() + 3;
    let mut out = vec![String::new(); n];
    for k in 0..n {
        let i = (k + rot) % n;
        out[i] = if i < docs.len() {
            exec_doc(schema, &docs[i])
        } else if i < docs.len() + queries.len() {
            introspect(schema, &queries[i - docs.len()])
        } else if i == docs.len() + queries.len() {
            render_schema(second, "second.graphql")
        } else if i == docs.len() + queries.len() + 1 {
            schema.to_string()
        } else {
            let mut m: Vec<String> = schema
                .implementers_map()
                .iter()
                .map(|(k, v)| {
                    let mut o: Vec<&str> = v.objects.iter().map(|n| n.as_str()).collect();
                    let mut i: Vec<&str> = v.interfaces.iter().map(|n| n.as_str()).collect();
                    o.sort();
                    i.sort();
                    format!("{k}:{o:?}:{i:?}")
                })
                .collect();
            m.sort();
            m.join(";")
        };
    }
    out
}

fn digest(v: &[String]) -> u64 {
    // FNV-1a, only to show that something non-trivial was compared
    let mut h: u64 = 0xcbf29ce484222325;
    for s in v {
        for b in s.bytes().chain([0u8]) {
            h ^= b as u64;
            h = h.wrapping_mul(0x100000001b3);
        }
    }
    h
}

/// input: `<threads> <schema hex> <second schema hex> <exec docs hex,..> <introspection queries hex,..>`
/// output: `items=<n> compared=<n> unstable=<n> valid=<0|1> digest=<hex> oracle=ok|bad:<what>`
fn shared_workload(line: &str) -> String {
    let f: Vec<&str> = line.split(' ').collect();
    let threads: usize = f[0].parse().unwrap();
    let first = unhex(f[1]);
    let second = unhex(f[2]);
    let docs: Vec<String> = split_nonempty(f[3], ',').iter().map(|h| unhex(h)).collect();
    let queries: Vec<String> = split_nonempty(f[4], ',').iter().map(|h| unhex(h)).collect();
    // phase 1: race the very first Schema::parse_and_validate calls of the process
    let barrier = Arc::new(Barrier::new(threads));
    let hs: Vec<_> = (0..threads)
        .map(|_| {
            let (b, t) = (barrier.clone(), first.clone());
            std::thread::spawn(move || {
                b.wait();
                let r = Schema::parse_and_validate(t.as_str(), "first.graphql");
                let text = match &r {
                    Ok(s) => format!("ok\n{s}"),
                    Err(e) => format!("err\n{}\n--partial--\n{}", e.errors, e.partial),
                };
                (r.ok(), text)
            })
        })
        .collect();
    let mut phase1 = Vec::new();
    let mut shared = None;
    for h in hs {
        match h.join() {
            Ok((s, text)) => {
                if shared.is_none() {
                    shared = s;
                }
                phase1.push(text);
            }
            Err(_) => return "items=0 compared=0 unstable=0 valid=0 digest=0 oracle=bad:panic-in-concurrent-schema-build".to_string(),
        }
    }
    // phase 2: the shared schema, used from all threads at once
    let mut conc: Vec<Vec<String>> = Vec::new();
    if let Some(schema) = &shared {
        let schema = Arc::new(schema.clone());
        let barrier = Arc::new(Barrier::new(threads));
        let hs: Vec<_> = (0..threads)
            .map(|i| {
                let (b, s, sec, d, q) = (barrier.clone(), schema.clone(), second.clone(), docs.clone(), queries.clone());
                std::thread::spawn(move || {
                    b.wait();
                    workload(&s, &sec, &d, &q, i * 3)
                })
            })
            .collect();
        for h in hs {
            match h.join() {
                Ok(v) => conc.push(v),
                Err(_) => return "items=0 compared=0 unstable=0 valid=1 digest=0 oracle=bad:panic-in-concurrent-workload".to_string(),
            }
        }
    }
    // phase 3: sequentially, twice (an item that differs between two sequential runs is not compared)
    let seq_first = render_schema(&first, "first.graphql");
    let seq_first2 = render_schema(&first, "first.graphql");
    let mut bad = None;
    let mut compared = 0;
    let mut unstable = 0;
    if seq_first == seq_first2 {
        compared += 1;
        for (t, p) in phase1.iter().enumerate() {
            if *p != seq_first && bad.is_none() {
                bad = Some(format!("thread-{t}-first-schema-differs-from-sequential"));
            }
        }
    } else {
        unstable += 1;
    }
    let mut seq = Vec::new();
    if let Some(schema) = &shared {
        seq = workload(schema, &second, &docs, &queries, 0);
        let seq2 = workload(schema, &second, &docs, &queries, 1);
        for i in 0..seq.len() {
            if seq[i] != seq2[i] {
                unstable += 1;
                continue;
            }
            compared += 1;
            for (t, v) in conc.iter().enumerate() {
                if v[i] != seq[i] && bad.is_none() {
                    bad = Some(format!("thread-{t}-item-{i}-differs-from-sequential"));
                }
            }
        }
    }
    format!(
        "items={} compared={} unstable={} valid={} digest={:x} oracle={}",
        seq.len() + 1,
        compared,
        unstable,
        if shared.is_some() { 1 } else { 0 },
        digest(&seq) ^ digest(&[seq_first]),
        bad.map_or("ok".to_string(), |b| format!("bad:{b}"))
    )
}
