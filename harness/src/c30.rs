//! C30: histories of operations on real `Name` and `Node<String>` values, interpreted step by step; after each
//! step what was read is printed, together with `Arc::strong_count` of the probe `Arc<str>` kept for every
//! string handed to `Name::from_arc_unchecked`; at the end everything is dropped and the number of live heap
//! allocations (counting global allocator below) relative to the start of the history is printed.
//!
//! case: `<threads> <tok>;<tok>;...`  tok = `|` (barrier) or `<tid>.<opcode>.<arg>...`, see driver/props/c30.py.
//! Operations before the first barrier run sequentially in the given order; after it, each phase runs the
//! threads' operations concurrently (one OS thread per tid) and ends with a barrier.
use crate::util::*;
use apollo_compiler::parser::__verif_fileid as hook;
use apollo_compiler::parser::SourceSpan;
use apollo_compiler::Name;
use apollo_compiler::Node;
use std::alloc::{GlobalAlloc, Layout, System};
use std::hash::{Hash, Hasher};
use std::sync::atomic::{AtomicUsize, Ordering};
use std::sync::{Arc, Mutex};

pub fn families() -> Vec<(&'static str, crate::Family)> {
    vec![("nn_history", nn_history)]
}

// ---------------------------------------------------------------- counting allocator (shared by the whole binary)
pub struct Counting;
static ALLOCS: AtomicUsize = AtomicUsize::new(0);
static FREES: AtomicUsize = AtomicUsize::new(0);

unsafe impl GlobalAlloc for Counting {
    unsafe fn alloc(&self, layout: Layout) -> *mut u8 {
        ALLOCS.fetch_add(1, Ordering::Relaxed);
        System.alloc(layout)
    }
    unsafe fn dealloc(&self, ptr: *mut u8, layout: Layout) {
        FREES.fetch_add(1, Ordering::Relaxed);
        System.dealloc(ptr, layout)
    }
    unsafe fn alloc_zeroed(&self, layout: Layout) -> *mut u8 {
        ALLOCS.fetch_add(1, Ordering::Relaxed);
        System.alloc_zeroed(layout)
    }
    unsafe fn realloc(&self, ptr: *mut u8, layout: Layout, new_size: usize) -> *mut u8 {
        // same allocation, possibly moved: the number of live allocations does not change
        System.realloc(ptr, layout, new_size)
    }
}

#[global_allocator]
static GLOBAL: Counting = Counting;

fn live_allocations() -> isize {
    // frees first: a concurrent alloc+free pair between the two loads cannot make the result negative
    let f = FREES.load(Ordering::SeqCst);
    let a = ALLOCS.load(Ordering::SeqCst);
    a as isize - f as isize
}

// ---------------------------------------------------------------- values
const STATICS: [&str; 4] = ["Query", "__typename", "a", "été_x"];
const NAMES: usize = 4;
const NODES: usize = 3;

struct NameVar {
    name: Name,
    group: Option<usize>, // index of the probe this name's Arc<str> came from
}

#[derive(Default)]
struct Pool {
    names: [Option<NameVar>; NAMES],
    nodes: [Option<Node<String>>; NODES],
}

static SPAN_LOCK: Mutex<()> = Mutex::new(());

/// A real SourceSpan with the chosen file id and offsets: parse `{   xxx}` with the id counter set to `file`.
fn make_span(file: u64, start: u64, len: u64) -> Option<SourceSpan> {
    let _g = SPAN_LOCK.lock().unwrap_or_else(|e| e.into_inner());
    if start == 0 || len == 0 {
        return None;
    }
    let text = format!("{{{}{}}}", " ".repeat(start as usize - 1), "x".repeat(len as usize));
    hook::__verif_set_next(file);
    let doc = apollo_compiler::ast::Document::parse(text, "span.graphql").ok()?;
    let def = doc.definitions.first()?;
    let apollo_compiler::ast::Definition::OperationDefinition(op) = def else {
        return None;
    };
    let apollo_compiler::ast::Selection::Field(f) = op.selection_set.first()? else {
        return None;
    };
    // the field node's own span (a Name cannot report a span whose file id is FileId::NONE)
    f.location()
}

fn show_span(s: Option<SourceSpan>) -> String {
    match s {
        None => "~".to_string(),
        Some(s) => format!(
            "{:x}:{:x}:{:x}",
            hook::__verif_file_id_raw(s.file_id()),
            s.offset(),
            s.end_offset()
        ),
    }
}

fn hash_of<T: Hash + ?Sized>(x: &T) -> u64 {
    let mut h = std::collections::hash_map::DefaultHasher::new();
    x.hash(&mut h);
    h.finish()
}

fn b(x: bool) -> &'static str {
    if x {
        "1"
    } else {
        "0"
    }
}

fn hxn(s: &str) -> u64 {
    u64::from_str_radix(s, 16).expect("hex number")
}

/// One operation of one thread on its own pool.  `probes`: Some in sequential phases (from_arc allowed, counts
/// shown), None in concurrent phases.  Returns the observation, or Err for an operation that needs another pool.
fn exec(
    pool: &mut Pool,
    f: &[&str],
    probes: Option<&mut Vec<Arc<str>>>,
    show_counts: bool,
) -> String {
    let ix = |k: usize| f[k].parse::<usize>().expect("index");
    let cnt = |c: usize| if show_counts { c.to_string() } else { "*".to_string() };
    macro_rules! need_name {
        ($i:expr) => {
            match pool.names.get($i).and_then(|x| x.as_ref()) {
                Some(v) => v,
                None => return "illscoped".to_string(),
            }
        };
    }
    macro_rules! need_node {
        ($a:expr) => {
            match pool.nodes.get($a).and_then(|x| x.as_ref()) {
                Some(v) => v,
                None => return "illscoped".to_string(),
            }
        };
    }
    match f[1] {
        "nh" => {
            pool.names[ix(2)] = Some(NameVar {
                name: Name::new_unchecked(&unhex(f[3])),
                group: None,
            });
            "-".into()
        }
        "ns" => {
            pool.names[ix(2)] = Some(NameVar {
                name: Name::new_static_unchecked(STATICS[ix(3)]),
                group: None,
            });
            "-".into()
        }
        "na" => {
            let Some(probes) = probes else {
                return "illscoped".to_string();
            };
            let arc: Arc<str> = Arc::from(unhex(f[3]).as_str());
            probes.push(arc.clone());
            pool.names[ix(2)] = Some(NameVar {
                name: Name::from_arc_unchecked(arc),
                group: Some(probes.len() - 1),
            });
            "-".into()
        }
        "nc" => {
            let v = need_name!(ix(2));
            let c = NameVar {
                name: v.name.clone(),
                group: v.group,
            };
            pool.names[ix(3)] = Some(c);
            "-".into()
        }
        "nd" => {
            need_name!(ix(2));
            pool.names[ix(2)] = None;
            "-".into()
        }
        "nm" => {
            need_name!(ix(2));
            let v = pool.names[ix(2)].take();
            pool.names[ix(3)] = v;
            "-".into()
        }
        "nw" => {
            need_name!(ix(2));
            let v = pool.names[ix(2)].take().unwrap();
            let Some(span) = make_span(hxn(f[3]), hxn(f[4]), v.name.len() as u64) else {
                pool.names[ix(2)] = Some(v);
                return "no-span".to_string();
            };
            pool.names[ix(2)] = Some(NameVar {
                name: v.name.with_location(span),
                group: v.group,
            });
            "-".into()
        }
        "nr" => {
            let v = need_name!(ix(2));
            format!(
                "s={},loc={},st={}",
                hex(v.name.as_str()),
                show_span(v.name.location()),
                v.name.as_static_str().map_or("~".to_string(), hex)
            )
        }
        "nt" => {
            let v = need_name!(ix(2));
            match v.name.to_cloned_arc() {
                None => "arc=~".to_string(),
                Some(a) => format!("arc={}:{}", hex(&a), cnt(Arc::strong_count(&a))),
            }
        }
        "ni" => {
            need_name!(ix(2));
            let v = pool.names[ix(2)].take().unwrap();
            let a: Arc<str> = v.name.into();
            format!("arc={}:{}", hex(&a), cnt(Arc::strong_count(&a)))
        }
        "nq" => {
            let x = need_name!(ix(2));
            let y = need_name!(ix(3));
            format!(
                "eq={},heq={},ord={}",
                b(x.name == y.name),
                b(hash_of(&x.name) == hash_of(&y.name)),
                match x.name.cmp(&y.name) {
                    std::cmp::Ordering::Less => 0,
                    std::cmp::Ordering::Equal => 1,
                    std::cmp::Ordering::Greater => 2,
                }
            )
        }
        "dn" => {
            pool.nodes[ix(2)] = Some(Node::new(unhex(f[3])));
            "-".into()
        }
        "dp" => {
            let Some(span) = make_span(hxn(f[4]), hxn(f[5]), hxn(f[6])) else {
                return "no-span".to_string();
            };
            pool.nodes[ix(2)] = Some(Node::new_parsed(unhex(f[3]), span));
            "-".into()
        }
        "dc" => {
            let c = need_node!(ix(2)).clone();
            pool.nodes[ix(3)] = Some(c);
            "-".into()
        }
        "dd" => {
            need_node!(ix(2));
            pool.nodes[ix(2)] = None;
            "-".into()
        }
        "dm" => {
            need_node!(ix(2));
            let v = pool.nodes[ix(2)].take();
            pool.nodes[ix(3)] = v;
            "-".into()
        }
        "dr" => {
            let n = need_node!(ix(2));
            format!("s={},loc={}", hex(n.as_str()), show_span(n.location()))
        }
        "dq" => {
            let x = need_node!(ix(2));
            let y = need_node!(ix(3));
            format!(
                "peq={},eq={},heq={}",
                b(x.ptr_eq(y)),
                b(x == y),
                b(hash_of(x) == hash_of(y))
            )
        }
        "dg" => {
            need_node!(ix(2));
            let n = pool.nodes[ix(2)].as_mut().unwrap();
            match n.get_mut() {
                Some(m) => {
                    *m = unhex(f[3]);
                    "got=1".into()
                }
                None => "got=0".into(),
            }
        }
        "dk" => {
            need_node!(ix(2));
            let n = pool.nodes[ix(2)].as_mut().unwrap();
            *n.make_mut() = unhex(f[3]);
            "-".into()
        }
        "ds" => {
            let n = need_node!(ix(2)).same_location(unhex(f[4]));
            pool.nodes[ix(3)] = Some(n);
            "-".into()
        }
        _ => "unknown-op".to_string(),
    }
}

/// `nx` / `dx`: clone into another thread's pool (sequential phase only)
fn exec_cross(pools: &mut [Pool], tid: usize, f: &[&str]) -> String {
    let ix = |k: usize| f[k].parse::<usize>().expect("index");
    let (i, t2, j) = (ix(2), ix(3), ix(4));
    if t2 >= pools.len() {
        return "illscoped".to_string();
    }
    if f[1] == "nx" {
        let Some(v) = pools[tid].names[i].as_ref() else {
            return "illscoped".to_string();
        };
        let c = NameVar {
            name: v.name.clone(),
            group: v.group,
        };
        pools[t2].names[j] = Some(c);
    } else {
        let Some(v) = pools[tid].nodes[i].as_ref() else {
            return "illscoped".to_string();
        };
        let c = v.clone();
        pools[t2].nodes[j] = Some(c);
    }
    "-".to_string()
}

fn probe_counts(probes: &[Arc<str>]) -> String {
    let v: Vec<String> = probes.iter().map(|p| Arc::strong_count(p).to_string()).collect();
    format!("@{}", v.join(","))
}

/// the harness's own bookkeeping: a probe's count must be 1 + the live names made from it
fn counts_consistent(pools: &[Pool], probes: &[Arc<str>]) -> bool {
    probes.iter().enumerate().all(|(g, p)| {
        let live = pools
            .iter()
            .flat_map(|pl| pl.names.iter())
            .filter(|v| v.as_ref().is_some_and(|v| v.group == Some(g)))
            .count();
        Arc::strong_count(p) == 1 + live
    })
}

fn warm_up() {
    static ONCE: std::sync::Once = std::sync::Once::new();
    ONCE.call_once(|| {
        let _ = interpret("2 0.na.0.61;0.nw.0.5.3;0.nr.0;0.nx.0.1.0;0.dp.0.62.5.2.1;0.dr.0;|;0.nt.0;1.nr.0;|;0.nq.0.0", false);
    });
}

fn interpret(line: &str, check_leak_twice: bool) -> String {
    let (threads, hist) = line.split_once(' ').expect("case");
    let threads: usize = threads.parse().expect("threads");
    let toks: Vec<&str> = split_nonempty(hist, ';');
    let mut out = String::with_capacity(64 + 64 * toks.len());
    let mut pools: Vec<Pool> = (0..threads).map(|_| Pool::default()).collect();
    let mut probes: Vec<Arc<str>> = Vec::with_capacity(toks.len() + 1);
    // split into phases at barriers
    let mut phases: Vec<Vec<&str>> = vec![Vec::new()];
    for t in &toks {
        if *t == "|" {
            phases.push(Vec::new());
        } else {
            phases.last_mut().unwrap().push(t);
        }
    }
    let mut oracle: Option<String> = None;
    // everything allocated above stays allocated until after the final measurement
    let base = live_allocations();
    'phases: for (pi, phase) in phases.iter().enumerate() {
        if pi == 0 {
            for tok in phase {
                let f: Vec<&str> = tok.split('.').collect();
                let tid: usize = f[0].parse().expect("tid");
                let obs = if tid >= threads {
                    "illscoped".to_string()
                } else if f[1] == "nx" || f[1] == "dx" {
                    exec_cross(&mut pools, tid, &f)
                } else {
                    exec(&mut pools[tid], &f, Some(&mut probes), true)
                };
                out.push_str(&obs);
                out.push_str(&probe_counts(&probes));
                out.push(';');
                if !counts_consistent(&pools, &probes) {
                    oracle = Some(format!("bad:strong-count-of-a-probe-is-not-1+live-names-after-{tok}"));
                    break 'phases;
                }
            }
        } else {
            // concurrent phase: thread tid runs its own operations, in order
            let mut per: Vec<Vec<Vec<&str>>> = vec![Vec::new(); threads];
            for tok in phase {
                let f: Vec<&str> = tok.split('.').collect();
                let tid: usize = f[0].parse().expect("tid");
                if tid < threads {
                    per[tid].push(f);
                }
            }
            let results: Vec<Vec<String>> = std::thread::scope(|s| {
                let hs: Vec<_> = pools
                    .iter_mut()
                    .zip(per.iter())
                    .map(|(pool, ops)| {
                        s.spawn(move || {
                            ops.iter()
                                .map(|f| {
                                    if f[1] == "nx" || f[1] == "dx" || f[1] == "na" {
                                        "illscoped".to_string()
                                    } else {
                                        exec(pool, f, None, false)
                                    }
                                })
                                .collect::<Vec<String>>()
                        })
                    })
                    .collect();
                hs.into_iter().map(|h| h.join().unwrap_or_else(|_| vec!["thread-panicked".to_string()])).collect()
            });
            for r in results {
                for o in r {
                    out.push_str(&o);
                    out.push(';');
                }
            }
            out.push('|');
            out.push_str(&probe_counts(&probes));
            out.push(';');
            if !counts_consistent(&pools, &probes) {
                oracle = Some(format!("bad:strong-count-of-a-probe-is-not-1+live-names-at-barrier-{pi}"));
                break 'phases;
            }
        }
    }
    if let Some(o) = oracle {
        // do not run destructors on a state whose counts are already wrong
        std::mem::forget(pools);
        std::mem::forget(probes);
        return format!("{out} oracle={o}");
    }
    for p in pools.iter_mut() {
        *p = Pool::default();
    }
    let unique = probes.iter().all(|p| Arc::strong_count(p) == 1);
    probes.clear();
    let delta = live_allocations() - base;
    drop(pools);
    if delta != 0 && check_leak_twice {
        // a one-off lazy initialisation somewhere in std or a dependency is not a leak of the history:
        // only a difference that shows again on a second execution of the same history counts
        let again = interpret(line, false);
        if again.contains("end@live=0") {
            out.push_str("end@live=0");
            return format!("{out} oracle={}", if unique { "ok" } else { "bad:probe-still-shared-after-dropping-all-names" });
        }
    }
    out.push_str(&format!("end@live={delta}"));
    let o = if !unique {
        "bad:probe-still-shared-after-dropping-all-names".to_string()
    } else if delta != 0 {
        format!("bad:{delta}-allocations-still-live-after-dropping-every-handle")
    } else {
        "ok".to_string()
    };
    format!("{out} oracle={o}")
}

fn nn_history(line: &str) -> String {
    warm_up();
    interpret(line, true)
}
