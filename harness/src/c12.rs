//! C12 families (and helpers shared with c13.rs / c16.rs): the real SchemaBuilder observed as
//! error classes + schemadump text; the round trip Schema -> text -> Schema.
use crate::schemadump::Dumper;
use crate::util::*;
use apollo_compiler::schema::ExtendedType;
use apollo_compiler::validation::DiagnosticList;
use apollo_compiler::Schema;

pub fn families() -> Vec<(&'static str, crate::Family)> {
    vec![("sb_builtin", sb_builtin), ("sb_build", sb_build), ("c12_rt", c12_rt)]
}

/// The class of one diagnostic: the variant name (taken from the derived Debug form, the enum itself is
/// private) and the back-quoted names of the message; for a kind mismatch also the two kinds.
pub fn err_class(dbg: &str, msg: &str) -> String {
    let variant = match dbg.find("details: ") {
        None => "Unknown".to_string(),
        Some(i) => {
            let rest = &dbg[i + 9..];
            let ident = |s: &str| -> String {
                s.chars().take_while(|c| c.is_ascii_alphanumeric() || *c == '_').collect()
            };
            let outer = ident(rest);
            let after = &rest[outer.len()..];
            if let Some(stripped) = after.strip_prefix('(') {
                let inner = ident(stripped);
                if inner.is_empty() {
                    outer
                } else {
                    inner
                }
            } else {
                outer
            }
        }
    };
    let mut names: Vec<String> = Vec::new();
    let mut it = msg.split('`');
    it.next();
    while let Some(n) = it.next() {
        names.push(n.to_string());
        if it.next().is_none() {
            break;
        }
    }
    if variant == "TypeExtensionKindMismatch" {
        let kind = |field: &str| -> String {
            let key = format!("{field}: \"");
            let text = dbg
                .find(&key)
                .map(|i| {
                    let r = &dbg[i + key.len()..];
                    r[..r.find('"').unwrap_or(r.len())].to_string()
                })
                .unwrap_or_default();
            for k in ["input", "scalar", "interface", "union", "enum", "object"] {
                if text.contains(k) {
                    return k.to_string();
                }
            }
            "?".to_string()
        };
        names.push(kind("describe_ext"));
        names.push(kind("describe_def"));
    }
    format!("{variant}({})", names.join(","))
}

/// Sorted: the push order is not observable (the list is sorted by location when it is returned).
pub fn err_classes(errors: &DiagnosticList) -> Vec<String> {
    let mut v: Vec<String> = errors
        .iter()
        .map(|d| err_class(&format!("{:?}", d.error), &d.error.to_string()))
        .collect();
    v.sort();
    v
}

fn has_extension(t: &ExtendedType) -> bool {
    t.iter_origins().any(|o| o.extension_id().is_some())
}

/// The observation of a built schema: the user-defined part with origins, the built-in types that
/// carry extension components, and the key order of both maps (built-ins included).
pub fn observe_schema(sch: &Schema) -> String {
    let mut d = Dumper::new();
    let user = d.schema(sch, false);
    let bi: Vec<String> = sch
        .types
        .values()
        .filter(|t| t.is_built_in() && has_extension(t))
        .map(|t| d.ext_type(t))
        .collect();
    let dk: Vec<&str> = sch.directive_definitions.keys().map(|k| k.as_str()).collect();
    let tk: Vec<&str> = sch.types.keys().map(|k| k.as_str()).collect();
    renumber(&format!("{user} bi=[{}] dk={} tk={}", bi.join(";"), dk.join(","), tk.join(",")))
}

/// Extension ids renumbered by first textual appearance (`Ox(n<k>)`), so that two dumps are equal
/// exactly when the schemas are equal up to a renaming of extension ids.
pub fn renumber(text: &str) -> String {
    let mut seen: Vec<String> = Vec::new();
    let mut out = String::with_capacity(text.len());
    let mut rest = text;
    while let Some(i) = rest.find("Ox(n") {
        out.push_str(&rest[..i + 4]);
        let r = &rest[i + 4..];
        let j = r.find(')').expect("closing");
        let id = &r[..j];
        let k = match seen.iter().position(|x| x == id) {
            Some(k) => k,
            None => {
                seen.push(id.to_string());
                seen.len() - 1
            }
        };
        out.push_str(&k.to_string());
        rest = &r[j..];
    }
    out.push_str(rest);
    out
}

pub fn builder_for(cfg: &str) -> apollo_compiler::schema::SchemaBuilder {
    let mut b = Schema::builder();
    if cfg.contains('a') {
        b = b.adopt_orphan_extensions();
    }
    if cfg.contains('i') {
        b = b.ignore_builtin_redefinitions();
    }
    b
}

pub fn build_sources(cfg: &str, srcs: &[String]) -> (Schema, Vec<String>) {
    let mut b = builder_for(cfg);
    for (i, s) in srcs.iter().enumerate() {
        b = b.parse(s.clone(), format!("s{i}.graphql"));
    }
    match b.build() {
        Ok(s) => (s, vec![]),
        Err(e) => {
            let c = err_classes(&e.errors);
            (e.partial, c)
        }
    }
}

/// The initial state of every SchemaBuilder: the built-in definitions, as data for the model.
/// input: ignored; output: `ok <schema with built-ins>`
fn sb_builtin(_line: &str) -> String {
    let sch = Schema::builder().build().expect("built-in definitions build");
    format!("ok {}", crate::schemadump::schema(&sch, true))
}

/// input: `<cfg> <n> <hex source>*n <ast>*n` (the asts are for the model); cfg: letters a (adopt orphan
/// extensions), i (ignore built-in redefinitions), or `-`.
/// output: `errs=[..] <observation>`
fn sb_build(line: &str) -> String {
    let f: Vec<&str> = line.split(' ').collect();
    let cfg = f[0];
    let n: usize = f[1].parse().expect("n");
    let srcs: Vec<String> = f[2..2 + n].iter().map(|h| unhex(h)).collect();
    let (sch, errs) = build_sources(cfg, &srcs);
    format!("errs=[{}] {}", errs.join(";"), observe_schema(&sch))
}

/// input: `<cfg> <hex source> <ast>`; the round trip of C12 in the builder configuration cfg.
/// output: `builderr` | `ok ast=<ast of the re-parsed text> s1=<obs> s2=<obs> e2=[..]` + oracle
fn c12_rt(line: &str) -> String {
    let f: Vec<&str> = line.split(' ').collect();
    let cfg = f[0];
    let src = unhex(f[1]);
    let (s1, errs) = build_sources(cfg, &[src]);
    if !errs.is_empty() {
        return "builderr".to_string();
    }
    let text1 = s1.to_string();
    let ast = apollo_compiler::ast::Document::parse(text1.clone(), "t1.graphql")
        .map(|d| crate::astdump::document(&d))
        .unwrap_or_else(|e| format!("syntaxerrors{}", e.errors.len()));
    let (s2, errs2) = build_sources(cfg, &[text1.clone()]);
    let text2 = s2.to_string();
    let o1 = observe_schema(&s1);
    let o2 = observe_schema(&s2);
    let mut why: Vec<&str> = Vec::new();
    if !errs2.is_empty() {
        why.push("rebuild-errors");
    }
    if o1 != o2 {
        why.push("order-or-origin");
    }
    if s1 != s2 {
        why.push("schema-eq");
    }
    if text1 != text2 {
        why.push("text");
    }
    // a valid schema stays valid
    let v1 = s1.clone().validate().is_ok();
    let v2 = s2.clone().validate().is_ok();
    if v1 && !v2 {
        why.push("validity");
    }
    let oracle = if why.is_empty() { "ok".to_string() } else { format!("bad:{}", why.join("+")) };
    format!("ok valid={} ast={ast} s1={o1} s2={o2} e2=[{}] oracle={oracle}", v1 as u8, errs2.join(";"))
}
