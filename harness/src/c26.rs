//! C26: execution (resolvers::Execution::execute_sync) against a resolver *world* given as data.
//!
//! world term (space-free):  [W(n<obj id>,<str field name>,<behaviour>);...]
//!   behaviour := Rl(h<hex of JSON text>)   leaf value (JSON null = GraphQL null)
//!              | Ro(n<id>,<str type name>) object with that id, claiming that type name
//!              | Ra([b;b;...])             list; an item `Re` is an `Err` item of the iterator
//!              | Re                        the resolver returns Err(FieldError)
//!              | Rs                        ResolvedValue::SkipForPartialExecution
//!              | Rg                        leaf: the coerced arguments of the call, as a JSON object
//! A (object, field) pair without entry behaves as `Re`.  The root object has id 0.
use crate::astdump::{list, s};
use crate::c28::{json_text, map_text, parse_json, parse_valid};
use crate::util::*;
use apollo_compiler::resolvers::{Execution, FieldError, ObjectValue, ResolveInfo, ResolvedValue};
use apollo_compiler::response::{ExecutionResponse, JsonMap, JsonValue, ResponseDataPathSegment};
use std::cell::RefCell;

pub fn families() -> Vec<(&'static str, crate::Family)> {
    vec![("exec_sync", exec_sync)]
}

// ---------------------------------------------------------------- term reader (same grammar as lib_ast.ml)
#[derive(Debug, Clone)]
pub enum Term {
    T(String, Vec<Term>),
    L(Vec<Term>),
}

pub fn parse_term(src: &str) -> Term {
    fn term(b: &[u8], pos: &mut usize) -> Term {
        if b.get(*pos) == Some(&b'[') {
            *pos += 1;
            let mut items = Vec::new();
            if b.get(*pos) == Some(&b']') {
                *pos += 1;
                return Term::L(items);
            }
            loop {
                items.push(term(b, pos));
                match b.get(*pos) {
                    Some(b';') => *pos += 1,
                    Some(b']') => {
                        *pos += 1;
                        return Term::L(items);
                    }
                    _ => panic!("term: expected ; or ]"),
                }
            }
        }
        let start = *pos;
        while *pos < b.len() && (b[*pos].is_ascii_alphanumeric() || b[*pos] == b'_' || b[*pos] == b'-') {
            *pos += 1;
        }
        let id = String::from_utf8(b[start..*pos].to_vec()).unwrap();
        assert!(!id.is_empty(), "term: unexpected char at {}", *pos);
        let mut args = Vec::new();
        if b.get(*pos) == Some(&b'(') {
            *pos += 1;
            loop {
                args.push(term(b, pos));
                match b.get(*pos) {
                    Some(b',') => *pos += 1,
                    Some(b')') => {
                        *pos += 1;
                        break;
                    }
                    _ => panic!("term: expected , or )"),
                }
            }
        }
        Term::T(id, args)
    }
    let mut pos = 0;
    let t = term(src.as_bytes(), &mut pos);
    assert!(pos == src.len(), "term: trailing input");
    t
}

pub fn t_str(t: &Term) -> String {
    match t {
        Term::T(h, a) if a.is_empty() && h == "e" => String::new(),
        Term::T(h, a) if a.is_empty() && h.starts_with('h') => unhex(&h[1..]),
        _ => panic!("term: str"),
    }
}

pub fn t_nat(t: &Term) -> u64 {
    match t {
        Term::T(n, a) if a.is_empty() && n.starts_with('n') => n[1..].parse().expect("nat"),
        _ => panic!("term: nat"),
    }
}

// ---------------------------------------------------------------- the world
#[derive(Debug, Clone)]
pub enum Behaviour {
    Leaf(JsonValue),
    Object(u64, String),
    List(Vec<Behaviour>),
    Error,
    Skip,
    EchoArgs,
}

pub struct World {
    pub table: Vec<(u64, String, Behaviour)>,
}

pub fn behaviour(t: &Term) -> Behaviour {
    match t {
        Term::T(k, a) => match (k.as_str(), a.as_slice()) {
            ("Rl", [j]) => Behaviour::Leaf(parse_json(&t_str(j)).expect("leaf json")),
            ("Ro", [id, ty]) => Behaviour::Object(t_nat(id), t_str(ty)),
            ("Ra", [Term::L(items)]) => Behaviour::List(items.iter().map(behaviour).collect()),
            ("Re", []) => Behaviour::Error,
            ("Rs", []) => Behaviour::Skip,
            ("Rg", []) => Behaviour::EchoArgs,
            _ => panic!("behaviour"),
        },
        _ => panic!("behaviour"),
    }
}

pub fn world(t: &Term) -> World {
    let Term::L(entries) = t else { panic!("world") };
    World {
        table: entries
            .iter()
            .map(|e| match e {
                Term::T(w, a) if w == "W" && a.len() == 3 => (t_nat(&a[0]), t_str(&a[1]), behaviour(&a[2])),
                _ => panic!("world entry"),
            })
            .collect(),
    }
}

impl World {
    pub fn lookup(&self, obj: u64, field: &str) -> Behaviour {
        self.table
            .iter()
            .find(|(o, f, _)| *o == obj && f == field)
            .map(|(_, _, b)| b.clone())
            .unwrap_or(Behaviour::Error)
    }
}

/// the token the harness's resolvers put in their own FieldError (an error whose message contains it is of
/// class `r`: it carries the resolver's message)
pub const TOKEN: &str = "XRESOLVERX";

pub fn call_text(obj: u64, info: &ResolveInfo<'_>) -> String {
    format!("C(n{},{},Jo({}))", obj, s(info.field_name()), map_text(info.arguments(), false))
}

// ---------------------------------------------------------------- synchronous resolvers
struct Obj<'w> {
    id: u64,
    ty: String,
    world: &'w World,
    log: &'w RefCell<Vec<String>>,
}

fn resolved<'w>(b: Behaviour, args: &JsonMap, world: &'w World, log: &'w RefCell<Vec<String>>) -> Result<ResolvedValue<'w>, FieldError> {
    match b {
        Behaviour::Leaf(j) => Ok(ResolvedValue::Leaf(j)),
        Behaviour::Object(id, ty) => Ok(ResolvedValue::object(Obj { id, ty, world, log })),
        Behaviour::List(items) => {
            let args = args.clone();
            Ok(ResolvedValue::List(Box::new(
                items.into_iter().map(move |b| resolved(b, &args, world, log)),
            )))
        }
        Behaviour::Error => Err(FieldError { message: TOKEN.to_string() }),
        Behaviour::Skip => Ok(ResolvedValue::SkipForPartialExecution),
        Behaviour::EchoArgs => Ok(ResolvedValue::Leaf(JsonValue::Object(args.clone()))),
    }
}

impl<'w> ObjectValue for Obj<'w> {
    fn type_name(&self) -> &str {
        &self.ty
    }
    fn resolve_field<'a>(&'a self, info: &'a ResolveInfo<'a>) -> Result<ResolvedValue<'a>, FieldError> {
        self.log.borrow_mut().push(call_text(self.id, info));
        resolved(self.world.lookup(self.id, info.field_name()), info.arguments(), self.world, self.log)
    }
}

// ---------------------------------------------------------------- observation
pub fn response_text(r: &ExecutionResponse) -> String {
    let data = match &r.data {
        None => "N".to_string(),
        Some(m) => format!("S(Jo({}))", map_text(m, false)),
    };
    let errors = list(r.errors.iter(), |e| {
        let class = if e.extensions.contains_key("APOLLO_SUSPECTED_VALIDATION_BUG") {
            "b"
        } else if e.message.contains(TOKEN) {
            "r"
        } else {
            "f"
        };
        let path = list(e.path.iter(), |p| match p {
            ResponseDataPathSegment::Field(n) => format!("k{}", &s(n)),
            ResponseDataPathSegment::ListIndex(i) => format!("i{i}"),
        });
        format!("E({class},{path})")
    });
    format!("data={data} errors={errors}")
}

/// input: `<hex schema> <hex document> <hex JSON variables> <world>`
/// output: `ok data=<S(json)|N> errors=[E(class,[path])..] log=[C(obj,field,args)..]` | `reqerr` | `invalid-*`
fn exec_sync(line: &str) -> String {
    let p: Vec<&str> = line.split(' ').collect();
    let (schema, doc) = match parse_valid(&unhex(p[0]), &unhex(p[1])) {
        Ok(x) => x,
        Err(e) => return e,
    };
    let vars = parse_json(&unhex(p[2])).expect("variables JSON");
    let vars = vars.as_object().expect("variables object");
    let w = world(&parse_term(p[3]));
    let log = RefCell::new(Vec::new());
    let Ok(op) = doc.operations.get(None) else {
        return "invalid-document".to_string();
    };
    let root = Obj { id: 0, ty: op.object_type().to_string(), world: &w, log: &log };
    let res = Execution::new(&schema, &doc).operation(op).raw_variable_values(vars).execute_sync(&root);
    match res {
        Err(_) => "reqerr".to_string(),
        Ok(r) => format!("ok {} log=[{}]", response_text(&r), log.borrow().join(";")),
    }
}

#[allow(dead_code)]
fn unused(_: &JsonValue) -> String {
    json_text(&JsonValue::Null, false)
}
