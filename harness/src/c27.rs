//! C27: Execution::execute_async driven by a hand-written single-threaded, waker-driven executor.
//!
//! Every resolver future and every `next()` of a list stream is an await point; await point i (in the order they
//! are reached) answers `Pending` schedule[i] times.  A pending point records the waker it was polled with; the
//! tick loop decrements its count and wakes THAT waker; the root future is polled again only if the root waker
//! was woken.  If the root is pending and a tick wakes nobody (a waker was dropped or substituted), the
//! observation is `deadlock`.
use crate::c26::{call_text, parse_term, response_text, world, Behaviour, World, TOKEN};
use crate::c28::{parse_json, parse_valid};
use crate::util::*;
use apollo_compiler::resolvers::{AsyncObjectValue, AsyncResolvedValue, Execution, FieldError, ResolveInfo};
use apollo_compiler::response::{JsonMap, JsonValue};
use futures::future::BoxFuture;
use futures::stream::Stream;
use std::collections::VecDeque;
use std::future::Future;
use std::pin::Pin;
use std::sync::atomic::{AtomicBool, AtomicUsize, Ordering};
use std::sync::{Arc, Mutex};
use std::task::{Context, Poll, Wake, Waker};

pub fn families() -> Vec<(&'static str, crate::Family)> {
    vec![("exec_async", exec_async)]
}

struct Point {
    remaining: u32,
    waker: Option<Waker>,
}

struct Shared {
    world: World,
    schedule: Vec<u32>,
    next_point: AtomicUsize,
    points: Mutex<Vec<Point>>,
    log: Mutex<Vec<String>>,
}

impl Shared {
    fn new_point(&self) -> usize {
        let i = self.next_point.fetch_add(1, Ordering::SeqCst);
        let k = self.schedule.get(i).copied().unwrap_or(0);
        let mut pts = self.points.lock().unwrap();
        assert!(pts.len() == i);
        pts.push(Point { remaining: k, waker: None });
        i
    }
    /// Ready when the count is exhausted; otherwise remember the waker of THIS poll
    fn poll_point(&self, i: usize, cx: &mut Context<'_>) -> Poll<()> {
        let mut pts = self.points.lock().unwrap();
        if pts[i].remaining == 0 {
            Poll::Ready(())
        } else {
            pts[i].waker = Some(cx.waker().clone());
            Poll::Pending
        }
    }
}

struct Delay {
    shared: Arc<Shared>,
    point: usize,
}

impl Future for Delay {
    type Output = ();
    fn poll(self: Pin<&mut Self>, cx: &mut Context<'_>) -> Poll<()> {
        self.shared.poll_point(self.point, cx)
    }
}

struct AObj {
    id: u64,
    ty: String,
    shared: Arc<Shared>,
}

fn aresolved<'x>(b: Behaviour, args: &JsonMap, shared: &Arc<Shared>) -> Result<AsyncResolvedValue<'x>, FieldError> {
    match b {
        Behaviour::Leaf(j) => Ok(AsyncResolvedValue::Leaf(j)),
        Behaviour::Object(id, ty) => Ok(AsyncResolvedValue::object(AObj { id, ty, shared: shared.clone() })),
        Behaviour::List(items) => Ok(AsyncResolvedValue::List(Box::pin(ItemStream {
            items: items.into(),
            args: args.clone(),
            shared: shared.clone(),
            current: None,
            _p: std::marker::PhantomData,
        }))),
        Behaviour::Error => Err(FieldError { message: TOKEN.to_string() }),
        Behaviour::Skip => Ok(AsyncResolvedValue::SkipForPartialExecution),
        Behaviour::EchoArgs => Ok(AsyncResolvedValue::Leaf(JsonValue::Object(args.clone()))),
    }
}

struct ItemStream<'x> {
    items: VecDeque<Behaviour>,
    args: JsonMap,
    shared: Arc<Shared>,
    current: Option<usize>,
    _p: std::marker::PhantomData<&'x ()>,
}

impl<'x> Stream for ItemStream<'x> {
    type Item = Result<AsyncResolvedValue<'x>, FieldError>;
    fn poll_next(mut self: Pin<&mut Self>, cx: &mut Context<'_>) -> Poll<Option<Self::Item>> {
        let point = match self.current {
            Some(p) => p,
            None => {
                let p = self.shared.new_point();
                self.current = Some(p);
                p
            }
        };
        match self.shared.poll_point(point, cx) {
            Poll::Pending => Poll::Pending,
            Poll::Ready(()) => {
                self.current = None;
                match self.items.pop_front() {
                    None => Poll::Ready(None),
                    Some(b) => {
                        let shared = self.shared.clone();
                        Poll::Ready(Some(aresolved(b, &self.args, &shared)))
                    }
                }
            }
        }
    }
}

impl AsyncObjectValue for AObj {
    fn type_name(&self) -> &str {
        &self.ty
    }
    fn resolve_field<'a>(
        &'a self,
        info: &'a ResolveInfo<'a>,
    ) -> BoxFuture<'a, Result<AsyncResolvedValue<'a>, FieldError>> {
        // the call itself: logged now, its await point allocated now
        self.shared.log.lock().unwrap().push(call_text(self.id, info));
        let point = self.shared.new_point();
        let b = self.shared.world.lookup(self.id, info.field_name());
        let args = info.arguments().clone();
        let shared = self.shared.clone();
        Box::pin(async move {
            Delay { shared: shared.clone(), point }.await;
            aresolved(b, &args, &shared)
        })
    }
}

struct RootWaker {
    woken: AtomicBool,
}

impl Wake for RootWaker {
    fn wake(self: Arc<Self>) {
        self.woken.store(true, Ordering::SeqCst);
    }
}

/// input: `<hex schema> <hex document> <hex JSON variables> <world> <k0,k1,...|->`
/// output: `ok data=.. errors=.. log=[..] dl=0` | `deadlock log=[..]` | `reqerr` | `invalid-*`
fn exec_async(line: &str) -> String {
    let p: Vec<&str> = line.split(' ').collect();
    let (schema, doc) = match parse_valid(&unhex(p[0]), &unhex(p[1])) {
        Ok(x) => x,
        Err(e) => return e,
    };
    let vars = parse_json(&unhex(p[2])).expect("variables JSON");
    let vars = vars.as_object().expect("variables object").clone();
    let schedule: Vec<u32> = split_nonempty(p[4], ',').iter().map(|x| x.parse().expect("schedule")).collect();
    let shared = Arc::new(Shared {
        world: world(&parse_term(p[3])),
        schedule,
        next_point: AtomicUsize::new(0),
        points: Mutex::new(Vec::new()),
        log: Mutex::new(Vec::new()),
    });
    let Ok(op) = doc.operations.get(None) else {
        return "invalid-document".to_string();
    };
    let root = AObj { id: 0, ty: op.object_type().to_string(), shared: shared.clone() };
    let exec = Execution::new(&schema, &doc).operation(op).raw_variable_values(&vars);
    let mut fut = Box::pin(exec.execute_async(&root));
    let rw = Arc::new(RootWaker { woken: AtomicBool::new(false) });
    let waker = Waker::from(rw.clone());
    let mut cx = Context::from_waker(&waker);
    let mut rounds = 0u64;
    let result = loop {
        rw.woken.store(false, Ordering::SeqCst);
        if let Poll::Ready(r) = fut.as_mut().poll(&mut cx) {
            break Some(r);
        }
        // tick: every pending point that registered a waker counts down once and wakes that waker
        let wakers: Vec<Waker> = {
            let mut pts = shared.points.lock().unwrap();
            pts.iter_mut()
                .filter(|p| p.remaining > 0)
                .filter_map(|p| {
                    p.waker.take().map(|w| {
                        p.remaining -= 1;
                        w
                    })
                })
                .collect()
        };
        for w in wakers {
            w.wake();
        }
        rounds += 1;
        if !rw.woken.load(Ordering::SeqCst) || rounds > 1_000_000 {
            break None;
        }
    };
    let log = shared.log.lock().unwrap().join(";");
    match result {
        None => format!("deadlock log=[{log}]"),
        Some(Err(_)) => "reqerr".to_string(),
        Some(Ok(r)) => format!("ok {} log=[{}] dl=0", response_text(&r), log),
    }
}
