//! C10: names, numeric literals and type references — observations and the property's oracle.
use crate::util::*;
use apollo_compiler::ast::{FloatValue, IntValue, Type};
use apollo_compiler::Name;
use std::sync::Arc;

pub fn families() -> Vec<(&'static str, crate::Family)> {
    vec![
        ("c10_name", c10_name),
        ("c10_num_syntax", c10_num_syntax),
        ("c10_i32", c10_i32),
        ("c10_f64_raw", c10_f64_raw),
        ("c10_f64", c10_f64),
        ("c10_type", c10_type),
    ]
}

fn b01(b: bool) -> &'static str {
    if b {
        "1"
    } else {
        "0"
    }
}

/// input: hex of the candidate. output: `valid=0|1`; oracle: every constructor gives the same verdict
/// and an accepted name keeps its text.
fn c10_name(line: &str) -> String {
    let s = unhex(line);
    let leaked: &'static str = Box::leak(s.clone().into_boxed_str());
    let arc: Arc<str> = Arc::from(s.as_str());
    let owned = s.clone();
    let results: Vec<(&str, Option<Name>)> = vec![
        ("new", Name::new(&s).ok()),
        ("new_static", Name::new_static(leaked).ok()),
        ("try_from_str", Name::try_from(s.as_str()).ok()),
        ("try_from_string", Name::try_from(owned.clone()).ok()),
        ("try_from_string_ref", Name::try_from(&owned).ok()),
        ("try_from_arc", Name::try_from(arc).ok()),
        (
            "serde_value",
            serde_json::from_value::<Name>(serde_json::Value::String(s.clone())).ok(),
        ),
        (
            "serde_str",
            serde_json::from_str::<Name>(&serde_json::to_string(&s).unwrap()).ok(),
        ),
    ];
    let valid = Name::is_valid_syntax(&s);
    let mut oracle = "ok".to_string();
    for (which, r) in &results {
        if r.is_some() != valid {
            oracle = format!("bad:{which}-disagrees-with-is_valid_syntax");
            break;
        }
        if let Some(n) = r {
            if n.as_str() != s {
                oracle = format!("bad:{which}-changes-text");
                break;
            }
        }
    }
    format!("valid={} oracle={}", b01(valid), oracle)
}

/// serde deserialization through both visitor paths (serde is not a direct dependency: no generics)
macro_rules! de {
    ($t:ty, $s:expr) => {
        (
            serde_json::from_value::<$t>(serde_json::Value::String($s.to_string())).ok(), // visit_string
            serde_json::from_str::<$t>(&serde_json::to_string($s).unwrap()).ok(),         // visit_str
        )
    };
}

/// input: hex of the candidate. output: `int=0|1 float=0|1` (serde deserialization verdicts);
/// oracle: the two visitor paths agree and an accepted literal keeps its text.
fn c10_num_syntax(line: &str) -> String {
    let s = unhex(line);
    let (i1, i2) = de!(IntValue, &s);
    let (f1, f2) = de!(FloatValue, &s);
    let mut oracle = "ok";
    if i1.is_some() != i2.is_some() || f1.is_some() != f2.is_some() {
        oracle = "bad:visit_str-and-visit_string-disagree";
    } else if i1.as_ref().is_some_and(|v| v.as_str() != s) || f1.as_ref().is_some_and(|v| v.as_str() != s)
    {
        oracle = "bad:accepted-literal-changes-text";
    }
    format!("int={} float={} oracle={}", b01(i1.is_some()), b01(f1.is_some()), oracle)
}

/// input: decimal i32. output: `lit=<text> back=<decimal|err>`; oracle: the literal deserializes as an
/// IntValue, converts back to the same i32 and to the same f64.
fn c10_i32(line: &str) -> String {
    let z: i32 = line.parse().expect("i32 case");
    let v = IntValue::from(z);
    let lit = v.as_str().to_string();
    let back = v.try_to_i32();
    let mut oracle = "ok";
    if de!(IntValue, &lit).0.is_none() {
        oracle = "bad:literal-not-valid-IntValue";
    } else if back.as_ref().ok() != Some(&z) {
        oracle = "bad:does-not-convert-back";
    } else if v.try_to_f64().ok() != Some(z as f64) {
        oracle = "bad:try_to_f64-differs";
    }
    format!(
        "lit={} back={} oracle={}",
        lit,
        back.map(|b| b.to_string()).unwrap_or_else(|_| "err".into()),
        oracle
    )
}

fn f64_of_bits(h: &str) -> f64 {
    f64::from_bits(u64::from_str_radix(h, 16).expect("bits"))
}

/// input: f64 bits in hex. output: hex of Rust's `to_string()` for it (std behaviour, input of the model).
fn c10_f64_raw(line: &str) -> String {
    hex(&f64_of_bits(line).to_string())
}

/// input: `<bits> <hex of to_string>`. output: `lit=<hex> valid=0|1`; oracle: the literal converts back
/// to the same bits.
fn c10_f64(line: &str) -> String {
    let (bits, raw) = line.split_once(' ').expect("c10_f64 case");
    let x = f64_of_bits(bits);
    assert!(x.is_finite(), "finite f64 only");
    let v = FloatValue::from(x);
    let lit = v.as_str().to_string();
    let valid = de!(FloatValue, &lit).0.is_some();
    let mut oracle = "ok";
    if x.to_string() != unhex(raw) {
        oracle = "bad:to_string-not-reproducible";
    } else if v.try_to_f64().ok().map(f64::to_bits) != Some(x.to_bits()) {
        oracle = "bad:does-not-convert-back";
    }
    format!("lit={} valid={} oracle={}", hex(&lit), b01(valid), oracle)
}

pub fn type_of_desc(d: &str) -> Type {
    let c = d.as_bytes()[0];
    match c {
        b'l' => Type::List(Box::new(type_of_desc(&d[1..]))),
        b'L' => Type::NonNullList(Box::new(type_of_desc(&d[1..]))),
        b'n' => Type::Named(Name::new(&d[1..]).expect("name")),
        b'N' => Type::NonNullNamed(Name::new(&d[1..]).expect("name")),
        _ => panic!("type descriptor"),
    }
}

pub fn desc_of_type(t: &Type) -> String {
    match t {
        Type::List(i) => format!("l{}", desc_of_type(i)),
        Type::NonNullList(i) => format!("L{}", desc_of_type(i)),
        Type::Named(n) => format!("n{n}"),
        Type::NonNullNamed(n) => format!("N{n}"),
    }
}

/// input: type descriptor. output: `print=<hex> back=<descriptor|err>`; oracle: parse(print t) == t.
fn c10_type(line: &str) -> String {
    let t = type_of_desc(line);
    let printed = t.to_string();
    let back = Type::parse(printed.clone(), "t.graphql");
    let oracle = if back.as_ref().ok() == Some(&t) { "ok" } else { "bad:does-not-parse-back" };
    format!(
        "print={} back={} oracle={}",
        hex(&printed),
        back.map(|b| desc_of_type(&b)).unwrap_or_else(|_| "err".into()),
        oracle
    )
}
