//! C24 — introspection agrees with the reference: the real `introspection::partial_execute`.
//!
//! family `c24_introspect`: `<hex schema> <hex query> [ignored model fields...]` ->
//!   `invalid-schema` | `invalid-query` | `no-operation` | `depth` | `reqerr` |
//!   `ok e=<number of errors> <data as JSON text>`
//! family `c24_schema_dump`: `<hex schema>` -> `ok <dump incl. built-ins of the VALIDATED schema>` | `invalid`
//!   (validation prunes the unused built-in scalars; the shared `schema_dump` dumps the unvalidated schema)
//! family `c24_builtins`: `<hex schema> [ignored]` -> `invalid-schema` | `ok`
//!   (the model side evaluates the specification's built-in definitions against the dumped schema).
use crate::util::*;
use apollo_compiler::introspection;
use apollo_compiler::request::coerce_variable_values;
use apollo_compiler::response::JsonMap;
use apollo_compiler::ExecutableDocument;
use apollo_compiler::Schema;

pub fn families() -> Vec<(&'static str, crate::Family)> {
    vec![
        ("c24_introspect", introspect),
        ("c24_builtins", builtins),
        ("c24_schema_dump", schema_dump),
    ]
}

fn introspect(line: &str) -> String {
    let mut it = line.split(' ');
    let schema_src = unhex(it.next().expect("schema"));
    let query_src = unhex(it.next().expect("query"));
    let Ok(schema) = Schema::parse_and_validate(schema_src, "schema.graphql") else {
        return "invalid-schema".into();
    };
    let Ok(document) = ExecutableDocument::parse_and_validate(&schema, query_src, "query.graphql")
    else {
        return "invalid-query".into();
    };
    let Ok(operation) = document.operations.get(None) else {
        return "no-operation".into();
    };
    if !operation.operation_type.is_query() {
        return "no-operation".into();
    }
    if introspection::check_max_depth(&document, operation).is_err() {
        return "depth".into();
    }
    let Ok(variables) = coerce_variable_values(&schema, operation, &JsonMap::new()) else {
        return "reqerr".into();
    };
    let response = match introspection::partial_execute(
        &schema,
        &schema.implementers_map(),
        &document,
        operation,
        &variables,
    ) {
        Ok(r) => r,
        Err(_) => return "reqerr".into(),
    };
    let data = match &response.data {
        Some(map) => serde_json::to_string(map).expect("json"),
        None => "null".to_string(),
    };
    format!("ok e={} {}", response.errors.len(), data)
}

fn builtins(line: &str) -> String {
    let schema_src = unhex(line.split(' ').next().expect("schema"));
    match Schema::parse_and_validate(schema_src, "schema.graphql") {
        Ok(_) => "ok".into(),
        Err(_) => "invalid-schema".into(),
    }
}

fn schema_dump(line: &str) -> String {
    match Schema::parse_and_validate(unhex(line), "schema.graphql") {
        Ok(schema) => format!("ok {}", crate::schemadump::schema(&schema, true)),
        Err(_) => "invalid".into(),
    }
}
