// Generates the module list: every src/c*.rs file is a family module exposing `pub fn families()`.
use std::io::Write;
fn main() {
    let dir = std::path::Path::new(env!("CARGO_MANIFEST_DIR")).join("src");
    let mut mods: Vec<String> = std::fs::read_dir(&dir)
        .unwrap()
        .filter_map(|e| e.ok())
        .map(|e| e.file_name().to_string_lossy().to_string())
        .filter(|n| n.ends_with(".rs") && n.starts_with('c') && n[1..3].chars().all(|c| c.is_ascii_digit()))
        .map(|n| n.trim_end_matches(".rs").to_string())
        .collect();
    mods.sort();
    let out = std::path::Path::new(&std::env::var("OUT_DIR").unwrap()).join("mods.rs");
    let mut f = std::fs::File::create(out).unwrap();
    for m in &mods {
        writeln!(f, "#[path = {:?}] pub mod {m};", dir.join(format!("{m}.rs"))).unwrap();
    }
    writeln!(f, "pub fn all_families() -> Vec<(&'static str, crate::Family)> {{ let mut v: Vec<(&'static str, crate::Family)> = Vec::new();").unwrap();
    for m in &mods {
        writeln!(f, "v.extend({m}::families());").unwrap();
    }
    writeln!(f, "v }}").unwrap();
    println!("cargo:rerun-if-changed=src");
}
